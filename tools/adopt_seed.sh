#!/usr/bin/env bash
# Confirm a sub-agent's seeded change, run checks against it, and file it under /verif/seeded/<ID>-<V>/.
# usage: adopt_seed.sh C03 A [check ids...]   (default: the property's own check)
ID=$1; V=$2; shift 2
CHECKS="${*:-$ID}"
ROOT=${SEEDROOT:-/tmp/seed}; S=$ROOT/$ID/SEED/$V
[ -f "$S/patch.diff" ] || { echo "no $S/patch.diff"; exit 2; }
if ! grep -q "suite_ok_with_change" "$S/confirm.log" 2>/dev/null; then /verif/tools/confirm_seed.sh "$ID" "$V" >/dev/null; rm -rf $ROOT/$ID/target; fi
conf=$(tail -1 "$S/confirm.log")
res=$(/verif/tools/try_seed.sh "$S" $CHECKS)
echo "$res"
DEST=/verif/seeded/$ID-${SEEDTAG:-}$V
mkdir -p "$DEST"
cp "$S/patch.diff" "$S/demo.rs" "$DEST/"
cp "$S/notes.md" "$DEST/agent-notes.md" 2>/dev/null
for c in $CHECKS; do grep -E '^(VIOLATION|  what:|INCONCLUSIVE|KNOWN|C[0-9]+ (HELD|VIOLATED|INCONCLUSIVE))' "$S/check-$c.log" | cut -c1-400 | head -12 > "$DEST/check-$c.excerpt.txt"; done
python3 - "$ID" "$V" "$conf" "$res" "$DEST" <<'PY'
import sys, json, re
ID, V, conf, res, dest = sys.argv[1:6]
checks = {}
for line in res.splitlines():
    m = re.search(r' (C\d+) rc=(\d+) wall=(\d+)s (\d+) violation', line)
    if m:
        sigs = re.findall(r'"signature":"([^"]+)"', line)
        checks[m.group(1)] = {"exit_code": int(m.group(2)), "wall_s": int(m.group(3)), "violation_lines": int(m.group(4)), "signatures": sigs, "detected": m.group(2) == "1"}
notes = open(dest + "/agent-notes.md").read() if True else ""
needs = ""
m = re.search(r'(?is)(what is needed|needed for the defect to manifest|to manifest|trigger)[^\n]*\n(.{0,900})', notes)
if m: needs = m.group(2).strip()
meta = {
  "breaks_property": ID, "variant": V, "origin": "independent sub-agent given only the property text and a scratch worktree",
  "confirmed_in_scratch_worktree": {"existing_suite_passes_with_change": "suite_ok_with_change=1" in conf, "demo_fails_with_change": "demo_fails_with_change=0" not in conf, "demo_passes_without_change": "demo_passes_without=1" in conf, "raw": conf},
  "needs_to_manifest": needs[:900],
  "ran": [f"git -C /repo apply patch.diff; ./check {c} quick; git -C /repo checkout -- ." for c in checks],
  "results": checks,
  "caught_by": [c for c, r in checks.items() if r["detected"]],
}
json.dump(meta, open(dest + "/meta.json", "w"), indent=1)
print(ID + "-" + V, "caught_by", meta["caught_by"], "confirm:", conf)
PY
