#!/usr/bin/env bash
# Re-run, with the current harness, the check of the broken property against every filed change
# (reverts and benign changes: all the checks recorded for them).
cd /verif
for d in seeded/*/; do
  n=$(basename "$d")
  case "$n" in
    C[0-9][0-9]-*) tools/recheck_seeded.sh "$n" "${n:0:3}" | tail -1 ;;
    *) tools/recheck_seeded.sh "$n" | tail -1 ;;
  esac
done
