#!/usr/bin/env bash
# Run every registered check (tier $1, default quick) and validate the evidence files.
cd /verif
TIER="${1:-quick}"
rc_all=0
for i in 01 02 03 04 05 06 07 08 09 10 11 12 13 14 15 16 17 18 19; do
  id="C$i"
  rm -f "evidence/$id.json"
  start=$(date +%s)
  ./check "$id" "$TIER" > "target/last-$id.log" 2>&1
  rc=$?
  end=$(date +%s)
  v=$(grep -c '^VIOLATION' "target/last-$id.log")
  printf "%s rc=%s violations=%s wall=%ss  %s\n" "$id" "$rc" "$v" "$((end-start))" "$(grep -E "^$id (HELD|VIOLATED|INCONCLUSIVE)" target/last-$id.log | tail -1 | cut -c1-110)"
  [ "$rc" -ne 0 ] && rc_all=1
done
python3-vt tools/validate_evidence.py || rc_all=1
exit $rc_all
