#!/usr/bin/env bash
# Confirm a seeded change in its scratch worktree: builds, existing tests pass with it,
# demo fails with it and passes without it.  usage: confirm_seed.sh C03 A
ID=$1; V=$2
W=/tmp/seed/$ID; S=$W/SEED/$V
cd "$W" || exit 2
git checkout -q -- . ; rm -f tests/seed_demo_*.rs
LOG=$S/confirm.log; : > "$LOG"
mkdir -p tests
git apply --check "$S/patch.diff" >>"$LOG" 2>&1 || { echo "$ID/$V patch does not apply"; exit 1; }
git apply "$S/patch.diff"
# existing suite with the change (demo not present)
cargo test --offline -j 8 --lib --bins 2>&1 | grep -E "^test result|FAILED|error(\[|:)" >>"$LOG"
suite=$(grep -c "test result: ok. 90 passed" "$LOG")
cp "$S/demo.rs" tests/seed_demo.rs
cargo test --offline -j 8 --test seed_demo 2>&1 | grep -E "^test result|error(\[|:)" > "$S/demo_with.log"
with_fail=$(grep -c "FAILED\|failed" "$S/demo_with.log")
git checkout -q -- .
cargo test --offline -j 8 --test seed_demo 2>&1 | grep -E "^test result|error(\[|:)" > "$S/demo_without.log"
without_ok=$(grep -c "test result: ok" "$S/demo_without.log")
rm -f tests/seed_demo.rs
echo "$ID/$V suite_ok_with_change=$suite demo_fails_with_change=$with_fail demo_passes_without=$without_ok" | tee -a "$LOG"
