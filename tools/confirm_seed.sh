#!/usr/bin/env bash
# Confirm a seeded change in its scratch worktree: builds, existing tests pass with it,
# demo fails with it and passes without it.  usage: [CLEAN=1] [DEMO_FLAGS="--features verif"] confirm_seed.sh C03 A
# CLEAN=1 forces a fresh draw / re-compiled book (cargo clean -p chess) before every build.
ID=$1; V=$2
ROOT=${SEEDROOT:-/tmp/seed}; W=$ROOT/$ID; S=$W/SEED/$V
cd "$W" || exit 2
git checkout -q -- . ; rm -f tests/seed_demo*.rs
LOG=$S/confirm.log; : > "$LOG"
mkdir -p tests
clean() { [ -n "${CLEAN:-}" ] && cargo clean -p chess --offline >/dev/null 2>&1; true; }
git apply --check "$S/patch.diff" >>"$LOG" 2>&1 || { echo "$ID/$V patch does not apply"; exit 1; }
git apply "$S/patch.diff"
clean
cargo test --offline -j 8 --lib --bins 2>&1 | grep -E "^test result|error(\[|:)" >>"$LOG"
suite=$(grep -c "test result: ok. 90 passed" "$LOG")
cp "$S/demo.rs" tests/seed_demo.rs
cargo test --offline -j 8 ${DEMO_FLAGS:-} --test seed_demo 2>&1 | grep -E "^test result|error(\[|:)" > "$S/demo_with.log"
with_fail=$(grep -c "test result: FAILED" "$S/demo_with.log")
git checkout -q -- .
clean
cargo test --offline -j 8 ${DEMO_FLAGS:-} --test seed_demo 2>&1 | grep -E "^test result|error(\[|:)" > "$S/demo_without.log"
without_ok=$(grep -c "test result: ok. [1-9]" "$S/demo_without.log")
rm -f tests/seed_demo.rs
echo "$ID/$V suite_ok_with_change=$suite demo_fails_with_change=$with_fail demo_passes_without=$without_ok" | tee -a "$LOG"
