#!/usr/bin/env bash
# Re-run checks against a change already filed under /verif/seeded/<name> with the current harness and
# record the outcome in its meta.json (previous results are kept under "earlier_results").
# usage: recheck_seeded.sh <name> [check ids...]   (default: the checks recorded in meta.json)
N=$1; shift
D=/verif/seeded/$N
[ -f "$D/patch.diff" ] || { echo "no $D/patch.diff"; exit 2; }
CHECKS="$*"
[ -z "$CHECKS" ] && CHECKS=$(python3 -c "import json;print(' '.join(json.load(open('$D/meta.json'))['results'].keys()))")
res=$(/verif/tools/try_seed.sh "$D" $CHECKS)
echo "$res"
for c in $CHECKS; do grep -E '^(VIOLATION|  what:|INCONCLUSIVE|KNOWN|C[0-9]+ (HELD|VIOLATED|INCONCLUSIVE))' "$D/check-$c.log" | cut -c1-400 | head -12 > "$D/check-$c.excerpt.txt"; rm -f "$D/check-$c.log"; done
python3 - "$D" "$res" <<'PY'
import sys, json, re, subprocess
d, res = sys.argv[1:3]
m = json.load(open(d + '/meta.json'))
new = {}
for line in res.splitlines():
    mm = re.search(r' (C\d+) rc=(\d+) wall=(\d+)s (\d+) violation', line)
    if mm:
        new[mm.group(1)] = {"exit_code": int(mm.group(2)), "wall_s": int(mm.group(3)), "violation_lines": int(mm.group(4)), "signatures": re.findall(r'"signature":"([^"]+)"', line), "detected": mm.group(2) == "1"}
if m.get('results') and m['results'] != new:
    m.setdefault('earlier_results', []).append(m['results'])
m['results'] = new
head = subprocess.check_output(['git', '-C', '/verif', 'rev-parse', '--short', 'HEAD']).decode().strip()
m['results_from_harness_commit'] = head
if m.get('kind', '').startswith('semantics'):
    m['false_alarms'] = [c for c, r in new.items() if r['exit_code'] != 0]
else:
    m['caught_by'] = [c for c, r in new.items() if r['detected']]
    m['not_caught_by'] = [c for c, r in new.items() if not r['detected']]
json.dump(m, open(d + '/meta.json', 'w'), indent=1)
print(d.split('/')[-1], 'caught_by', m.get('caught_by'), 'silent', m.get('not_caught_by'), 'false_alarms', m.get('false_alarms'))
PY
