import json, sys, glob
import jsonschema
schema = json.load(open('/root/.vp/EVIDENCE.schema.json'))
mschema = json.load(open('/root/.vp/MANIFEST.schema.json'))
ok = True
m = json.load(open('/verif/MANIFEST.json'))
try:
    jsonschema.validate(m, mschema)
    print("MANIFEST.json valid;", len(m['checks']), "checks")
except Exception as e:
    ok = False; print("MANIFEST invalid:", str(e)[:300])
for c in m['checks']:
    f = c['evidence_file']
    try:
        ev = json.load(open(f))
        jsonschema.validate(ev, schema)
        cov = ev['coverage']
        print(f"{ev['property_id']} evidence valid: tier={ev['tier']} evaluations={cov['evaluations']} distinct={cov['distinct_nontrivial']} samples={len(cov['samples'])} verdict={cov.get('verdict')}")
    except Exception as e:
        ok = False; print(f, "INVALID:", str(e)[:300])
sys.exit(0 if ok else 1)
