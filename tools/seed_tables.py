# Regenerate the seeded-change tables of DESIGN.md (between the SEEDTABLES markers) from /verif/seeded/*/meta.json
import json, glob, os, re
def title(d):
    n=os.path.join(d,'agent-notes.md')
    if os.path.exists(n):
        for line in open(n).read().splitlines():
            if line.strip().startswith('#'):
                t=line.strip('# ').strip()
                t=re.sub(r'^(Seed )?C\d\d\s*(seed)?[,/ ]*\s*variant [AB]\s*[:—–-]*\s*','',t,flags=re.I)
                t=re.sub(r'^Variant [AB]\s*[:—–-]*\s*','',t,flags=re.I)
                return t.strip(' "').replace('|','/')
    return ''
R4='Round 4 (nine properties; agents told to make the change need something specific to manifest)'
R5='Round 5 (the other ten properties; same brief as round 4)'
groups={'Round 1':[], 'Round 2 (agents told that the obvious defects were taken)':[], 'Round 3 (agents told to avoid the mechanisms of rounds 1 and 2)':[], R4:[], R5:[]}
for d in sorted(glob.glob('/verif/seeded/C*')):
    j=json.load(open(d+'/meta.json'))
    res=j['results']
    caught=', '.join(c for c,r in res.items() if r.get('detected'))
    missed=', '.join(c for c,r in res.items() if not r.get('detected'))
    earlier=j.get('earlier_results',[])
    first_missed = any(not r.get('detected') for e in earlier for c,r in e.items() if c==j.get('breaks_property'))
    row=(os.path.basename(d), title(d)[:115], caught or '— (not caught)', missed, 'yes' if first_missed else '')
    key=R5 if '-R5' in d else R4 if '-R4' in d else 'Round 3 (agents told to avoid the mechanisms of rounds 1 and 2)' if '-R3' in d else 'Round 2 (agents told that the obvious defects were taken)' if '-R2' in d else 'Round 1'
    groups[key].append(row)
out=[]
for name,rows in groups.items():
    out.append(f"**{name}** — results with the final harness (quick tier, seed 1)\n")
    out.append("| change | what it is (agent's words) | caught by | run, silent | missed by an earlier version of the check |")
    out.append('|---|---|---|---|---|')
    for r in rows: out.append('| '+' | '.join(r)+' |')
    out.append('')
text='\n'.join(out)
s=open('/verif/DESIGN.md').read()
a=s.index('<!-- SEEDTABLES-BEGIN -->'); b=s.index('<!-- SEEDTABLES-END -->')
s=s[:a]+'<!-- SEEDTABLES-BEGIN -->\n'+text+'\n'+s[b:]
open('/verif/DESIGN.md','w').write(s)
print({k:len(v) for k,v in groups.items()})
