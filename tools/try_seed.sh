#!/usr/bin/env bash
# Apply a seeded change to /repo, run the quick checks named on the command line, undo the change.
# usage: try_seed.sh <dir with patch.diff> <ID> [<ID>...]     (never leaves /repo modified)
D=$1; shift
cd /repo || exit 2
if [ -n "$(git status --porcelain --untracked-files=no)" ]; then echo "/repo is not clean"; exit 2; fi
git apply --check "$D/patch.diff" || { echo "patch does not apply"; exit 2; }
git apply "$D/patch.diff"
# a change to the build-time generators or the book leaves its tables in our build directories: force a fresh draw afterwards
redraw_after() { if grep -qE '^diff --git a/(precompile/|build\.rs|opening_lines\.txt)' "$D/patch.diff"; then (cd /verif/harness && cargo clean --release -p chess --offline >/dev/null 2>&1; cargo clean -p chess --offline --manifest-path /repo/Cargo.toml --target-dir /verif/target/cli >/dev/null 2>&1); fi; }
trap 'git -C /repo checkout -- . ; git -C /repo clean -fdq -- src precompile common 2>/dev/null; redraw_after' EXIT
cd /verif
for id in "$@"; do
  rm -f /verif/replays/$id-*
  start=$(date +%s)
  VERIF_BUDGET_S="${VERIF_BUDGET_S:-}" ./check "$id" "${TIER:-quick}" > "$D/check-$id.log" 2>&1
  rc=$?
  end=$(date +%s)
  sig=$(grep -h '"signature"' /verif/replays/$id-${TIER:-quick}-${VERIF_SEED:-1}-*.json 2>/dev/null | sort -u | head -5 | tr -d ' \n')
  [ "$rc" -ne 1 ] && sig=""
  echo "$(basename $(dirname $D))/$(basename $D) $id rc=$rc wall=$((end-start))s $(grep -c '^VIOLATION' "$D/check-$id.log") violation line(s) $sig"
done
