import json, glob, os, re
rows = []
for d in sorted(glob.glob('/verif/seeded/*')):
    m = os.path.join(d, 'meta.json')
    if not os.path.exists(m): continue
    j = json.load(open(m))
    notes = open(os.path.join(d, 'agent-notes.md')).read() if os.path.exists(os.path.join(d, 'agent-notes.md')) else ''
    title = ''
    for line in notes.splitlines():
        if line.strip().startswith('#'):
            title = line.strip('# ').strip(); break
    if not title:
        title = (j.get('summary') or notes.strip().splitlines()[0] if notes.strip() else '')
    title = j.get('summary', title)
    res = j.get('results', {})
    caught = ', '.join(f"{c} ({r['wall_s']} s)" for c, r in res.items() if r.get('detected'))
    missed = ', '.join(c for c, r in res.items() if not r.get('detected'))
    rows.append((os.path.basename(d), j.get('breaks_property', ''), title[:110], caught or '—', missed or ''))
print('| change | breaks | what it is | caught by (quick tier) | not caught by |')
print('|---|---|---|---|---|')
for r in rows: print('| ' + ' | '.join(r) + ' |')
