//! vcheck: runtime-verification harness for codyjk/chess (see /verif/DESIGN.md).
mod alloc;
mod bridge;
mod gen;
mod mon;
mod out;
mod par;
mod props;
mod refchess;
mod rng;
mod sched;
mod snap;

#[global_allocator]
static GLOBAL: alloc::Recycling = alloc::Recycling;

fn usage() -> ! {
    eprintln!("usage: vcheck <C01..C19|selftest> [--tier quick|thorough] [--seed N] [--replay FILE] [--part NAME]");
    std::process::exit(2);
}

fn main() {
    let args: Vec<String> = std::env::args().collect();
    if args.len() < 2 { usage(); }
    let mut args = args;
    let merge_dir = if args[1] == "merge" && args.len() >= 4 { let d = args[3].clone(); args.remove(3); args.remove(1); Some(d) } else { None };
    let id = args[1].clone();
    let mut tier = std::env::var("VERIF_TIER").unwrap_or_else(|_| "quick".to_string());
    let mut seed: u64 = std::env::var("VERIF_SEED").ok().and_then(|s| s.parse().ok()).unwrap_or(1);
    let mut replay: Option<String> = None;
    let mut part: Option<String> = None;
    let mut i = 2;
    while i < args.len() {
        match args[i].as_str() {
            "--tier" => { tier = args.get(i + 1).cloned().unwrap_or_else(|| usage()); i += 2; }
            "--seed" => { seed = args.get(i + 1).and_then(|s| s.parse().ok()).unwrap_or_else(|| usage()); i += 2; }
            "--replay" => { replay = Some(args.get(i + 1).cloned().unwrap_or_else(|| usage())); i += 2; }
            "--part" => { part = Some(args.get(i + 1).cloned().unwrap_or_else(|| usage())); i += 2; }
            _ => usage(),
        }
    }
    if tier != "quick" && tier != "thorough" { usage(); }
    // keep engine panics (caught and attributed by the checks) from flooding stderr
    par::install_panic_hook(std::env::var("VERIF_PANIC_TRACE").is_ok());

    if let Some(dir) = merge_dir { std::process::exit(out::merge_parts(&id, &dir, &tier, seed)); }
    if id == "selftest" {
        match refchess::self_test(true) {
            Ok(n) => { println!("oracle self-test ok ({} nodes reproduced from published perft values)", n); std::process::exit(0); }
            Err(e) => { eprintln!("harness error: {}", e); std::process::exit(2); }
        }
    }
    if let Err(e) = refchess::self_test(false) { eprintln!("harness error: {}", e); std::process::exit(2); }
    mon::install();
    let opts = props::Opts { tier, seed, replay, part };
    // a panic of the harness itself (engine panics are caught where they are judged) is a harness problem
    let code = match std::panic::catch_unwind(|| props::run(&id, &opts)) {
        Ok(c) => c,
        Err(e) => { println!("harness error: the harness itself panicked at {}: {}", par::last_panic_location(), par::panic_text(e)); 2 }
    };
    std::process::exit(code);
}
