//! Command-line level of C14: drive the `chess pvp` binary built from /repo over stdin.

use super::*;
use serde_json::json;

pub fn c14_cli(ctx: &Ctx, _o: &Opts) {
    let bin = match std::env::var("VERIF_CLI_BIN") { Ok(b) => b, Err(_) => { ctx.note("VERIF_CLI_BIN not set: command-line level skipped"); return; } };
    let _ = (bin, json!({}));
    ctx.note("command-line driver not built yet");
}
