//! Command-line level of C14: drive the `chess pvp` binary built from /repo over stdin and
//! judge what it prints (DESIGN 4/C14, "CLI protocol").

use super::*;
use crate::bridge::*;
use serde_json::json;
use std::io::{BufRead, BufReader, Write};
use std::process::{Child, Command, Stdio};
use std::sync::mpsc::{channel, Receiver};
use std::time::Duration;

struct Pvp { child: Child, rx: Receiver<String>, stdin: std::process::ChildStdin }

#[derive(Debug)]
struct Block { messages: Vec<String>, turn: Option<Col>, board: Option<[Option<(Col, Pc)>; 64]>, ended: bool }

fn glyph(c: char) -> Option<Option<(Col, Pc)>> {
    Some(match c {
        '.' => None,
        '♟' => Some((Col::W, Pc::P)), '♞' => Some((Col::W, Pc::N)), '♝' => Some((Col::W, Pc::B)), '♜' => Some((Col::W, Pc::R)), '♛' => Some((Col::W, Pc::Q)), '♚' => Some((Col::W, Pc::K)),
        '♙' => Some((Col::B, Pc::P)), '♘' => Some((Col::B, Pc::N)), '♗' => Some((Col::B, Pc::B)), '♖' => Some((Col::B, Pc::R)), '♕' => Some((Col::B, Pc::Q)), '♔' => Some((Col::B, Pc::K)),
        _ => return None,
    })
}

impl Pvp {
    fn start(bin: &str) -> Result<Pvp, String> {
        let mut child = Command::new(bin).arg("pvp").stdin(Stdio::piped()).stdout(Stdio::piped()).stderr(Stdio::null()).spawn().map_err(|e| e.to_string())?;
        let out = child.stdout.take().ok_or("no stdout")?;
        let stdin = child.stdin.take().ok_or("no stdin")?;
        let (tx, rx) = channel();
        std::thread::spawn(move || { for line in BufReader::new(out).lines() { match line { Ok(l) => { if tx.send(l).is_err() { break; } } Err(_) => break } } });
        Ok(Pvp { child, rx, stdin })
    }
    /// Read until a complete `turn:` + 8 board lines block (or the end of the game / a timeout).
    fn read_block(&mut self) -> Result<Block, String> {
        let mut b = Block { messages: vec![], turn: None, board: None, ended: false };
        let mut rows: Vec<String> = vec![];
        loop {
            let line = match self.rx.recv_timeout(Duration::from_secs(20)) { Ok(l) => l, Err(_) => { if b.ended { return Ok(b); } return Err("timeout waiting for the program's output".into()); } };
            if b.turn.is_some() && rows.len() < 8 {
                rows.push(line);
                if rows.len() == 8 {
                    let mut sq = [None; 64];
                    for (i, row) in rows.iter().enumerate() {
                        let chars: Vec<char> = row.chars().collect();
                        if chars.len() != 8 { return Err(format!("board row {:?} is not 8 cells", row)); }
                        for (f, ch) in chars.iter().enumerate() { sq[(7 - i) * 8 + f] = glyph(*ch).ok_or(format!("unknown cell {:?}", ch))?; }
                    }
                    b.board = Some(sq);
                    // a finished game prints its verdict right after the board
                    if let Ok(extra) = self.rx.recv_timeout(Duration::from_millis(150)) { if extra.ends_with('!') { b.ended = true; b.messages.push(extra); } else { b.messages.push(extra); } }
                    return Ok(b);
                }
                continue;
            }
            if let Some(t) = line.strip_prefix("turn: ") { b.turn = Some(if t.trim() == "white" { Col::W } else { Col::B }); continue; }
            if line.ends_with('!') && (line.contains("mate") || line.contains("draw")) { b.ended = true; }
            b.messages.push(line);
        }
    }
    fn send(&mut self, s: &str) -> Result<(), String> { writeln!(self.stdin, "{}", s).map_err(|e| e.to_string())?; self.stdin.flush().map_err(|e| e.to_string()) }
    fn stop(mut self) { let _ = self.child.kill(); let _ = self.child.wait(); }
}

fn run_script(ctx: &Ctx, bin: &str, moves: &[Mv], label: &str, rng: &mut Rng) {
    let root = Pos::start();
    let mut pvp = match Pvp::start(bin) { Ok(p) => p, Err(e) => { ctx.inconclusive(&format!("cannot start {} pvp: {}", bin, e)); return; } };
    let mut p = root.clone();
    let mut typed: Vec<String> = vec![];
    let fail = |ctx: &Ctx, sig: &str, what: String, typed: &Vec<String>| ctx.violation(sig, &what, json!({"cli": "chess pvp", "script": label, "typed_so_far": typed}));
    let mut blk = match pvp.read_block() { Ok(b) => b, Err(e) => { ctx.inconclusive(&format!("pvp: {}", e)); pvp.stop(); return; } };
    for (i, m) in moves.iter().enumerate() {
        // what is printed must be the position the rules give
        if blk.board != Some(p.sq) || blk.turn != Some(p.turn) { fail(ctx, "c14:cli-position-differs", format!("{}: after typing {:?} the program shows a position (turn {:?}) that differs from the rules' {}", label, typed, blk.turn, p.to_fen()), &typed); break; }
        ctx.count("cli_positions_compared", 1);
        let legal = p.legal_moves();
        // a few inputs that must be refused and must change nothing
        if i % 3 == 0 {
            let junk: Vec<String> = vec!["e9".into(), format!("{}{}", sq_name(rng.below(64) as u8), sq_name(rng.below(64) as u8)), "Nz3".into(), "O-O-O-O".into(), "Qh9#".into()];
            for j in junk.iter().take(2) {
                let is_legal_pair = legal.iter().any(|x| format!("{}{}", sq_name(x.from), sq_name(x.to)) == *j);
                if is_legal_pair { continue; }
                if pvp.send(j).is_err() { break; }
                typed.push(j.clone());
                match pvp.read_block() {
                    Ok(b2) => { ctx.count("cli_refusals_checked", 1); if b2.board != Some(p.sq) || b2.turn != Some(p.turn) { fail(ctx, "c14:cli-refused-input-has-an-effect", format!("{}: input {:?} names no legal move in {} but the printed position changed", label, j, p.to_fen()), &typed); } blk = b2; }
                    Err(e) => { ctx.inconclusive(&format!("pvp: {}", e)); pvp.stop(); return; }
                }
            }
        }
        // type the move: standard label (every label the engine prints for a legal move must be typable), sometimes coordinates
        let san = p.san(m, &legal);
        let is_promo = matches!(m.kind, Kind::Promo(_) | Kind::PromoCapture(_));
        let text = if i % 4 == 3 && !is_promo { format!("{}{}", sq_name(m.from), sq_name(m.to)) } else { san.clone() };
        if pvp.send(&text).is_err() { ctx.inconclusive("pvp: stdin closed"); break; }
        typed.push(text.clone());
        let n = p.make(m);
        match pvp.read_block() {
            Ok(b2) => {
                ctx.count("cli_moves_typed", 1);
                if matches!(m.kind, Kind::CastleK | Kind::CastleQ) && (san.ends_with('+') || san.ends_with('#')) { ctx.count("cli_castling_with_check_typed", 1); }
                if b2.board != Some(n.sq) || (b2.turn != Some(n.turn) && !b2.ended) {
                    let msg = b2.messages.join(" | ");
                    let sig = if b2.board == Some(p.sq) { if msg.contains("invalid input") { "c14:cli-refuses-standard-input-as-invalid" } else { "c14:cli-rejects-legal-move" } } else { "c14:cli-plays-a-different-move" };
                    fail(ctx, sig, format!("{}: typed {:?} (move {} of {}) in {}; expected the position {} but the program answered [{}]", label, text, i + 1, moves.len(), p.to_fen(), n.to_fen(), msg), &typed);
                    pvp.stop(); return;
                }
                blk = b2;
            }
            Err(e) => { ctx.inconclusive(&format!("pvp: {}", e)); pvp.stop(); return; }
        }
        p = n;
        if blk.ended { break; }
    }
    ctx.count("cli_games_played", 1);
    ctx.distinct(hash_bytes(typed.join(" ").as_bytes()));
    pvp.stop();
}

pub fn c14_cli(ctx: &Ctx, o: &Opts) {
    let bin = match std::env::var("VERIF_CLI_BIN") { Ok(b) => b, Err(_) => { ctx.note("VERIF_CLI_BIN not set: command-line level skipped"); return; } };
    let mut rng = Rng::new(o.seed).fork(tag("c14-cli"));
    let root = Pos::start();
    let scripts: Vec<(&str, Vec<&str>)> = vec![
        ("king-side castling with check", vec!["f2f4", "e7e5", "f4e5", "e8e7", "e2e4", "e7e6", "f1c4", "e6e5", "g1h3", "e5f6", "e1g1"]),
        ("queen-side castling with check", vec!["d2d4", "e7e5", "d4e5", "e8e7", "c1g5", "e7e6", "b1c3", "e6e5", "d1d3", "e5d6", "d3e4", "d6d7", "e4f4", "d7d6", "e1c1"]),
        ("scholar's mate", vec!["e2e4", "e7e5", "f1c4", "b8c6", "d1h5", "g8f6", "h5f7"]),
        ("en passant and promotion", vec!["e2e4", "a7a5", "e4e5", "d7d5", "e5d6", "a5a4", "d6c7", "a4a3", "c7b8q"]),
    ];
    for (label, ucis) in &scripts {
        match parse_path(&root, &ucis.iter().map(|s| s.to_string()).collect::<Vec<_>>()) {
            Ok(path) => run_script(ctx, &bin, &path, label, &mut rng),
            Err(e) => { ctx.note(&format!("script {:?} skipped (not legal by the reference rules: {})", label, e)); }
        }
    }
    let games = if ctx.quick() { 4 } else { 30 };
    for g in 0..games {
        if ctx.out_of_budget() { break; }
        let policy = gen::POLICIES[g % gen::POLICIES.len()];
        let path = gen::random_game(&root, &mut rng, policy, 70);
        run_script(ctx, &bin, &path, "seeded random game", &mut rng);
    }
}
