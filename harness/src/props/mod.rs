//! One driver + oracle per property.
#![allow(dead_code)]

pub mod cache;
pub mod cli;
pub mod counters;
pub mod game;
pub mod perft;
pub mod pos;
pub mod search;
pub mod tables;

use crate::gen::{self, Case, Policy};
use crate::out::Ctx;
use crate::refchess::*;
use crate::rng::{tag, Rng};
use std::collections::HashSet;

pub struct Opts {
    pub tier: String,
    pub seed: u64,
    pub replay: Option<String>,
    pub part: Option<String>,
}

pub fn run(id: &str, o: &Opts) -> i32 {
    match id {
        "C01" => pos::c01(o),
        "C02" => cache::c02(o),
        "C03" => pos::c03(o),
        "C04" => game::c04(o),
        "C05" => tables::c05(o),
        "C06" => pos::c06(o),
        "C07" => search::c07(o),
        "C08" => search::c08(o),
        "C09" => search::c09(o),
        "C10" => perft::c10(o),
        "C11" => tables::c11(o),
        "C12" => game::c12(o),
        "C13" => pos::c13(o),
        "C14" => game::c14(o),
        "C15" => game::c15(o),
        "C16" => counters::c16(o),
        "C17" => counters::c17(o),
        "C18" => pos::c18(o),
        "C19" => pos::c19(o),
        _ => { eprintln!("unknown property {}", id); 2 }
    }
}

/// Sizes of the shared position pool.
pub struct PoolSpec {
    pub walk_depth: u32,
    pub walk_cap_per_root: usize,
    pub setups: usize,
    pub endings: usize,
    pub games: usize,
    pub game_plies: usize,
    pub game_stride: usize,
}

/// Corpus + exhaustive walks + consistent random set-ups + biased random games; positions
/// de-duplicated by the reference's own key. A pure function of (seed, spec).
pub fn position_pool(seed: u64, spec: &PoolSpec) -> Vec<Case> {
    let base = Rng::new(seed);
    let mut seen: HashSet<PosKey> = HashSet::new();
    let mut out: Vec<Case> = vec![];
    let corpus = gen::corpus();
    for (p, _) in &corpus {
        let before = out.len();
        gen::walk(p, spec.walk_depth, &mut seen, &mut out, "corpus-walk", before + spec.walk_cap_per_root);
    }
    let mut r = base.fork(tag("setups"));
    for _ in 0..spec.setups {
        let p = gen::random_setup(&mut r);
        if seen.insert(p.key()) { out.push(Case::setup(p, "random-setup")); }
    }
    let mut r = base.fork(tag("endings"));
    for _ in 0..spec.endings {
        let p = gen::random_ending(&mut r);
        if seen.insert(p.key()) { out.push(Case::setup(p, "random-ending")); }
    }
    let mut r = base.fork(tag("games"));
    for g in 0..spec.games {
        let policy = gen::POLICIES[g % gen::POLICIES.len()];
        let root = match g % 4 { 0 => Pos::start(), 1 => corpus[r.below(corpus.len())].0.clone(), 2 => gen::random_setup(&mut r), _ => if policy == Policy::CheckSeeking { gen::random_ending(&mut r) } else { Pos::start() } };
        let path = gen::random_game(&root, &mut r, policy, spec.game_plies);
        for c in gen::game_cases(&root, &path, "random-game", spec.game_stride) { if seen.insert(c.pos.key()) { out.push(c); } }
    }
    out
}

pub fn default_ctx(id: &str, o: &Opts, quick_budget: f64, thorough_budget: f64) -> Ctx {
    Ctx::new(id, &o.tier, o.seed, if o.tier == "quick" { quick_budget } else { thorough_budget })
}

/// Read a replay file (harness error if unreadable).
pub fn load_replay(path: &str) -> serde_json::Value {
    match std::fs::read_to_string(path).ok().and_then(|t| serde_json::from_str(&t).ok()) {
        Some(v) => v,
        None => { eprintln!("harness error: cannot read replay file {}", path); std::process::exit(2); }
    }
}

/// Case described by a replay file ({root_fen, path}).
pub fn case_from_replay(v: &serde_json::Value) -> Case {
    let root = Pos::from_fen(v["root_fen"].as_str().unwrap_or("")).unwrap_or_else(|e| { eprintln!("harness error: replay root_fen: {}", e); std::process::exit(2) });
    let ucis: Vec<String> = v["path"].as_array().map(|a| a.iter().filter_map(|x| x.as_str().map(|s| s.to_string())).collect()).unwrap_or_default();
    let path = crate::bridge::parse_path(&root, &ucis).unwrap_or_else(|e| { eprintln!("harness error: replay path: {}", e); std::process::exit(2) });
    let pos = crate::bridge::end_of(&root, &path);
    Case { root, path, pos, origin: "replay" }
}
