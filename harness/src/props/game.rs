//! C04 (undo exactness), C12 (representation invariants), C14 (typed moves), C15 (book + engine move).

use super::*;
use crate::bridge::*;
use crate::mon;
use crate::out::Local;
use crate::par;
use crate::snap::Snapshot;
use chess::alpha_beta_searcher::{alpha_beta_search, SearchContext};
use chess::board::Board;
use chess::book::{Book, BookMove};
use chess::chess_move::algebraic_notation::enumerate_candidate_moves_with_algebraic_notation;
use chess::chess_move::chess_move::ChessMove;
use chess::evaluate;
use chess::game::game::Game;
use chess::move_generator::MoveGenerator;
use serde_json::json;

fn kind_of(m: &Mv) -> &'static str {
    match m.kind { Kind::Quiet => "quiet", Kind::Capture => "capture", Kind::DoublePush => "double_step", Kind::EnPassant => "en_passant", Kind::CastleK | Kind::CastleQ => "castle", Kind::Promo(_) => "promotion", Kind::PromoCapture(_) => "promotion_capture" }
}

fn drain_hook_violations(ctx: &Ctx, prefix: &str) {
    for v in mon::take_hook_violations() {
        let kind = v.mv.split(' ').next().unwrap_or("move").to_lowercase();
        let short: String = v.what.split(':').last().unwrap_or("").trim().chars().take(60).collect();
        let sig = if v.monitor == "UNDO" { format!("{}:hook-undo:{}", prefix, kind) } else { format!("{}:hook-inv:{}", prefix, short) };
        ctx.violation(&sig, &format!("[{} monitor on the engine's apply/undo hooks] {} (move: {}; board afterwards: {})", v.monitor, v.what, v.mv, v.board), json!({"monitor": v.monitor, "move": v.mv, "board_after": v.board}));
    }
}

// ======================================================================================= C04

fn c04_dfs(ctx: &Ctx, l: &mut Local, root: &Pos, p: &Pos, b: &mut Board, depth: u32, path: &mut Vec<Mv>) {
    let snap = Snapshot::take(b);
    if depth == 0 { return; }
    for m in p.legal_moves() {
        let em = engine_move(&m, p.turn);
        if em.apply(b).is_err() { l.inc("apply_failed_(C03_business)"); continue; }
        b.toggle_turn(); path.push(m);
        c04_dfs(ctx, l, root, &p.make(&m), b, depth - 1, path);
        b.toggle_turn();
        let r = em.undo(b);
        l.inc("driver_apply_undo_pairs"); l.inc_dyn(&format!("undone_{}", kind_of(&m)));
        if m.kind != Kind::Quiet || p.make(&m).rights != p.rights { l.distinct.push(p.key_hash() ^ ((m.from as u64) << 8 | m.to as u64).wrapping_mul(0x9E37_79B9_7F4A_7C15)); }
        let after = Snapshot::take(b);
        if r.is_err() || after != snap {
            let d = snap.diff(&after).unwrap_or_else(|| format!("undo returned {:?}", r));
            ctx.violation(&format!("c04:undo-not-exact:{}", kind_of(&m)), &format!("after apply+undo of {} (nesting depth {}) in {} the board differs: {}", p.uci(&m), path.len(), p.to_fen(), d),
                json!({"root_fen": root.to_fen(), "path": path_str(root, path), "differs": d}));
        }
        path.pop();
    }
}

fn c04_long_walk(ctx: &Ctx, l: &mut Local, root: &Pos, seed: u64, plies: usize) {
    let mut rng = Rng::new(seed);
    let policy = gen::POLICIES[(seed % 5) as usize];
    // every fifth walk is a quiet shuffle, so that the half-move clock runs far beyond 100 before the unwinding
    let path = gen::random_game(root, &mut rng, policy, plies);
    let mut b = to_engine(root);
    let mut p = root.clone();
    let mut snaps: Vec<Snapshot> = vec![];
    let mut counted: Vec<bool> = vec![];
    let mut rets: Vec<Option<u64>> = vec![];
    let mut ems: Vec<ChessMove> = vec![];
    for m in &path {
        // register the position in the repetition bookkeeping before some moves, so that it is part of the state
        let c = rng.chance(if policy == Policy::Shuffle { 0.8 } else { 0.3 });
        rets.push(if c { Some(b.count_current_position() as u64) } else { None });
        counted.push(c);
        snaps.push(Snapshot::take(&b));
        let em = engine_move(m, p.turn);
        let applied = par::guarded(|| em.apply(&mut b));
        if !matches!(applied, Ok(Ok(()))) {
            // a failing or panicking apply is judged by C03 / C16, not here
            l.inc(if applied.is_err() { "apply_panicked_(C16_business)" } else { "apply_failed_(C03_business)" });
            counted.pop(); snaps.pop(); rets.pop();
            if applied.is_err() { return; }
            if c { b.uncount_current_position(); }
            break;
        }
        b.toggle_turn();
        ems.push(em);
        p = p.make(m);
    }
    l.set_max("longest_sequence_unwound", ems.len() as u64);
    l.set_max("highest_half_move_clock_unwound", snaps.iter().map(|s| s.halfmove).max().unwrap_or(0));
    let n = ems.len();
    // take the second half back and play it again: a state that was restored exactly behaves the same the second
    // time (the registrations report the counts they reported the first time)
    if n >= 4 {
        let half = n / 2;
        for k in (half..n).rev() { b.toggle_turn(); let _ = ems[k].undo(&mut b); if counted[k] { b.uncount_current_position(); } }
        for k in half..n {
            if counted[k] {
                let again = b.count_current_position() as u64;
                l.inc("registrations_repeated_after_a_take_back");
                if Some(again) != rets[k] {
                    ctx.violation("c04:behaviour-differs-after-take-back", &format!("{}-ply sequence from {}: registering the position before ply {} reported {:?} the first time and {} after the plies {}..{} had been taken back and replayed", n, root.to_fen(), k + 1, rets[k], again, half + 1, n),
                        json!({"root_fen": root.to_fen(), "path": path_str(root, &path[..n]), "taken_back_to": half, "ply": k, "walk_seed": seed, "walk_plies": plies}));
                    return;
                }
            }
            if !matches!(par::guarded(|| ems[k].apply(&mut b)), Ok(Ok(()))) { l.inc("replayed_apply_failed_(C03_business)"); return; }
            b.toggle_turn();
        }
    }
    for k in (0..n).rev() {
        b.toggle_turn();
        let r = ems[k].undo(&mut b);
        l.inc("driver_apply_undo_pairs"); l.inc_dyn(&format!("undone_{}", kind_of(&path[k])));
        let after = Snapshot::take(&b);
        if r.is_err() || after != snaps[k] {
            let d = snaps[k].diff(&after).unwrap_or_else(|| format!("undo returned {:?}", r));
            ctx.violation(&format!("c04:undo-not-exact:{}", kind_of(&path[k])), &format!("unwinding a {}-ply sequence from {}: after undoing ply {} ({}) the board differs from the state recorded after ply {}: {}", n, root.to_fen(), k + 1, kind_of(&path[k]), k, d),
                json!({"root_fen": root.to_fen(), "path": path_str(root, &path[..n]), "undone_down_to": k, "differs": d}));
            break;
        }
        if counted[k] { b.uncount_current_position(); }
    }
    l.inc("long_sequences_unwound");
    if n >= 2 { l.distinct.push(hash_bytes(path_str(root, &path[..n]).join(" ").as_bytes())); }
}

fn c04_boundary(ctx: &Ctx, l: &mut Local, p: &Pos, g: &mut MoveGenerator, with_search: bool) {
    let turn = ecol(p.turn);
    let mut b = to_engine(p);
    let mut guard = |name: &'static str, b: &mut Board, f: &mut dyn FnMut(&mut Board)| {
        let before = Snapshot::take(b);
        let r = par::guarded(|| f(b));
        l.inc("engine_calls_guarded"); l.inc_dyn(&format!("guarded_{}", name));
        if r.is_err() { l.inc("guarded_calls_that_panicked_(other_properties)"); return; }
        if let Some(d) = before.diff(&Snapshot::take(b)) {
            ctx.violation(&format!("c04:entry-point-changes-board:{}", name), &format!("{} returned with the caller's board changed on {}: {}", name, p.to_fen(), d), json!({"fen": p.to_fen(), "entry_point": name, "differs": d}));
        }
    };
    guard("generate_moves", &mut b, &mut |b| { g.generate_moves(b, turn); });
    guard("annotated_generation", &mut b, &mut |b| { g.generate_moves_and_lazily_update_chess_move_effects(b, turn); });
    guard("player_is_in_check", &mut b, &mut |b| { evaluate::player_is_in_check(b, g, turn); });
    guard("player_is_in_checkmate", &mut b, &mut |b| { evaluate::player_is_in_checkmate(b, g, turn); });
    guard("game_ending", &mut b, &mut |b| { evaluate::game_ending(b, g, turn); });
    guard("score", &mut b, &mut |b| { evaluate::score(b, g, turn, 2); });
    guard("san_enumeration", &mut b, &mut |b| { enumerate_candidate_moves_with_algebraic_notation(b, turn, g); });
    if with_search {
        guard("count_positions", &mut b, &mut |b| { g.count_positions(1, b, turn); });
        // with repetition bookkeeping present (the position has been registered), also on roots without a legal move
        b.count_current_position();
        guard("alpha_beta_search", &mut b, &mut |b| { let _ = alpha_beta_search(&mut SearchContext::new(2), b, g); });
        guard("alpha_beta_search_depth_1", &mut b, &mut |b| { let _ = alpha_beta_search(&mut SearchContext::new(1), b, g); });
    }
}

pub fn c04(o: &Opts) -> i32 {
    let ctx = default_ctx("C04", o, 60.0, 600.0);
    let q = ctx.quick();
    mon::enable_board_monitors(false, true);
    #[derive(Clone)]
    enum U { Dfs(Pos, u32), Long(Pos, u64, usize), Boundary(Vec<Pos>, bool) }
    let corpus = gen::corpus();
    let mut units: Vec<U> = vec![];
    let mut r = Rng::new(o.seed).fork(tag("c04"));
    if let Some(path) = &o.replay {
        let raw = load_replay(path);
        let case = case_from_replay(&raw);
        if let (Some(ws), Some(wp)) = (raw["walk_seed"].as_u64(), raw["walk_plies"].as_u64()) { units.push(U::Long(case.root.clone(), ws, wp as usize)); }
        units.push(U::Dfs(case.root.clone(), (case.path.len() as u32).clamp(1, 4)));
        units.push(U::Boundary(vec![case.pos.clone(), case.root.clone()], true));
    } else {
        for (i, (p, _)) in corpus.iter().enumerate() { units.push(U::Dfs(p.clone(), if p.piece_count() > 16 { if q { 2 } else { 3 } } else { 3 })); if i % 3 == 0 { units.push(U::Long(p.clone(), o.seed + i as u64, 200)); } }
        for i in 0..if q { 60 } else { 600 } { let root = if i % 3 == 0 { Pos::start() } else { gen::random_setup(&mut r) }; units.push(U::Long(root, o.seed * 31 + i, 100 + r.below(300))); }
        // shuffles on sparse material: positions recur many times, nearly all of them registered
        for i in 0..if q { 40 } else { 400 } { let root = if i % 4 == 0 { Pos::from_fen("8/8/4k3/3Nn3/3nN3/4K3/8/8 w - - 0 1").unwrap() } else { gen::random_ending(&mut r) }; units.push(U::Long(root, (o.seed * 977 + i) * 5 + 4, 200 + r.below(200))); }
        let mut chunk = vec![];
        for (i, (p, _)) in corpus.iter().enumerate() { chunk.push(p.clone()); if chunk.len() == 8 { units.push(U::Boundary(std::mem::take(&mut chunk), i % 16 == 7)); } }
        for _ in 0..if q { 20 } else { 200 } { units.push(U::Boundary((0..8).map(|_| gen::random_setup(&mut r)).collect(), r.chance(0.2))); }
        // terminal roots (mated / stalemated) with the search among the guarded entry points
        let mut tr = Rng::new(o.seed).fork(tag("c04-terminal"));
        let mut term = gen::terminal_with_pieces(&mut tr, if q { 40_000 } else { 400_000 }, true);
        term.extend(gen::terminal_with_pieces(&mut tr, if q { 20_000 } else { 200_000 }, false));
        for ch in term.chunks(8).take(if q { 6 } else { 60 }) { units.push(U::Boundary(ch.to_vec(), true)); }
        // quiet shuffles: the half-move clock passes 100 and keeps counting before everything is undone
        let kn = Pos::from_fen("8/8/4k3/3Nn3/3nN3/4K3/8/8 w - - 0 1").unwrap();
        for i in 0..if q { 6 } else { 40 } { units.push(U::Long(kn.clone(), 3 + 5 * i as u64, 150 + 10 * (i as usize % 5))); }
    }
    par::for_each(&units, par::threads(), |_i, u| {
        if ctx.budget_used() > 0.95 { ctx.count("units_skipped_for_time_budget", 1); return; }
        let mut l = Local::default();
        mon::reset_thread_stacks();
        match u {
            U::Dfs(p, d) => { let mut b = to_engine(p); let mut path = vec![]; c04_dfs(&ctx, &mut l, p, p, &mut b, *d, &mut path); l.set_max("deepest_driver_nesting", *d as u64); l.inc("exhaustive_walks"); }
            U::Long(p, s, n) => c04_long_walk(&ctx, &mut l, p, *s, *n),
            U::Boundary(ps, with_search) => { let mut g = MoveGenerator::new(); for p in ps { c04_boundary(&ctx, &mut l, p, &mut g, *with_search); } }
        }
        l.flush(&ctx);
    }, |_i, _u, msg| ctx.violation(&format!("c04:panic:{}", par::last_panic_location()), &format!("engine panicked: {}", msg), json!({})));
    mon::enable_board_monitors(false, false);
    mon::put_counters(&ctx);
    drain_hook_violations(&ctx, "c04");
    ctx.sample(json!({"kind": "long sequence", "what": "seeded game of 100-400 plies, positions registered in the repetition bookkeeping before ~30% of the moves, snapshot after every ply, then unwound completely with a full snapshot comparison at every level"}));
    ctx.sample(json!({"kind": "hook-level", "what": "every ChessMove::apply/undo pair executed inside legality filtering, annotation, search and counting is matched on a per-(thread, board) shadow stack and the digest after undo must equal the digest before apply"}));
    ctx.finish(ctx.counter("driver_apply_undo_pairs") + ctx.counter("hook_undo_pairs") + ctx.counter("engine_calls_guarded"),
        "driver level: exhaustive walks (depth 2-3 from every corpus position) compare the full snapshot (64 squares, 12 piece boards, occupancies, turn, rights, ep, both clocks, key, repetition count, and via hook all stacks and the repetition map) at every unwinding level; seeded games of 100-400 plies are unwound completely; engine entry points (generation, annotated generation, check/mate queries, game_ending, score, SAN enumeration, count_positions, alpha_beta_search) are wrapped in before/after snapshots; hook level: shadow-stack monitor on every apply/undo pair inside the engine. distinct_nontrivial = distinct (position, non-quiet or rights-changing move) pairs undone in the exhaustive walks + distinct long sequences unwound",
        &["zero-count entries of the repetition map are ignored ('registered then unregistered' == 'never registered')", "the side to move is excluded from the hook-level digest because callers legitimately toggle it between apply and undo; it is part of the driver-level snapshots"],
        &[("hook_undo_pairs", 100_000), ("undone_en_passant", 5), ("undone_castle", 20), ("undone_promotion", 20), ("undone_promotion_capture", 10), ("long_sequences_unwound", 20), ("engine_calls_guarded", 500), ("guarded_alpha_beta_search", 5), ("highest_half_move_clock_unwound", 110)])
}

// ======================================================================================= C12

fn inv_check(ctx: &Ctx, l: &mut Local, b: &Board, what: &str, root: &Pos, path: &[Mv]) {
    l.inc("driver_states_checked");
    if let Some(w) = mon::invariant_violation(b, true) {
        let short: String = w.chars().take(60).collect();
        ctx.violation(&format!("c12:{}", short), &format!("{} ({}) after {} from {}", w, what, path_str(root, path).join(" "), root.to_fen()), json!({"root_fen": root.to_fen(), "path": path_str(root, path), "when": what, "invariant": w}));
    }
}

fn c12_dfs(ctx: &Ctx, l: &mut Local, root: &Pos, p: &Pos, b: &mut Board, depth: u32, path: &mut Vec<Mv>) {
    if depth == 0 { return; }
    for m in p.legal_moves() {
        let em = engine_move(&m, p.turn);
        if em.apply(b).is_err() { l.inc("apply_failed_(C03_business)"); continue; }
        path.push(m);
        inv_check(ctx, l, b, "after apply", root, path);
        if m.kind == Kind::DoublePush { l.inc("ep_target_set_transitions"); }
        let n = p.make(&m);
        if n.rights != p.rights { l.inc("rights_loss_transitions"); }
        if n.rights != p.rights || m.kind != Kind::Quiet { l.distinct.push(n.key_hash()); }
        b.toggle_turn();
        c12_dfs(ctx, l, root, &n, b, depth - 1, path);
        b.toggle_turn();
        em.undo(b).ok();
        path.pop();
        inv_check(ctx, l, b, "after undo", root, path);
    }
}

pub fn c12(o: &Opts) -> i32 {
    let ctx = default_ctx("C12", o, 60.0, 600.0);
    let q = ctx.quick();
    mon::enable_board_monitors(true, false);
    #[derive(Clone)]
    enum U { Dfs(Pos, u32), Game(Pos, u64), Engine(Pos) }
    let corpus = gen::corpus();
    let mut r = Rng::new(o.seed).fork(tag("c12"));
    let mut units = vec![];
    if let Some(path) = &o.replay {
        let case = case_from_replay(&load_replay(path));
        units.push(U::Dfs(case.root.clone(), (case.path.len() as u32).clamp(1, 4)));
        units.push(U::Engine(case.root.clone()));
    } else {
        for (i, (p, _)) in corpus.iter().enumerate() {
            units.push(U::Dfs(p.clone(), if p.piece_count() > 16 { if q { 2 } else { 3 } } else { 3 }));
            if q && i % 4 != 0 { continue; }
            units.push(U::Engine(p.clone()));
        }
        for i in 0..if q { 40 } else { 400 } { let root = if i % 3 == 0 { Pos::start() } else { gen::random_setup(&mut r) }; units.push(U::Game(root, o.seed * 17 + i)); }
        for _ in 0..if q { 24 } else { 300 } { units.push(U::Engine(gen::random_setup(&mut r))); }
    }
    par::for_each(&units, par::threads(), |_i, u| {
        if ctx.budget_used() > 0.95 { ctx.count("units_skipped_for_time_budget", 1); return; }
        let mut l = Local::default();
        match u {
            U::Dfs(p, d) => { let mut b = to_engine(p); inv_check(&ctx, &mut l, &b, "set-up", p, &[]); let mut path = vec![]; c12_dfs(&ctx, &mut l, p, p, &mut b, *d, &mut path); l.inc("exhaustive_walks"); }
            U::Game(root, s) => {
                let mut rng = Rng::new(*s);
                let path = gen::random_game(root, &mut rng, gen::POLICIES[(*s % 5) as usize], 300);
                let mut b = to_engine(root); let mut p = root.clone(); let mut ems = vec![];
                for (i, m) in path.iter().enumerate() { let em = engine_move(m, p.turn); let applied = par::guarded(|| em.apply(&mut b)); if applied.is_err() { l.inc("apply_panicked_(C16_business)"); return; } if !matches!(applied, Ok(Ok(()))) { break; } inv_check(&ctx, &mut l, &b, "after apply", root, &path[..=i]); b.toggle_turn(); ems.push(em); p = p.make(m); }
                for k in (0..ems.len()).rev() { b.toggle_turn(); ems[k].undo(&mut b).ok(); inv_check(&ctx, &mut l, &b, "after undo", root, &path[..k]); }
                l.inc("long_games"); l.set_max("longest_game_plies", ems.len() as u64);
                if ems.len() >= 2 { l.distinct.push(hash_bytes(path_str(root, &path).join(" ").as_bytes())); }
            }
            U::Engine(p) => {
                // transient states inside generation, annotation, search and counting (hook-level monitor)
                let turn = ecol(p.turn); let mut b = to_engine(p); let mut g = MoveGenerator::new();
                let _ = par::guarded(|| { g.generate_moves_and_lazily_update_chess_move_effects(&mut b, turn); g.count_positions(2, &mut b, turn); if !p.legal_moves().is_empty() { let _ = alpha_beta_search(&mut SearchContext::new(2), &mut b, &mut g); } });
                l.inc("engine_internals_runs");
            }
        }
        l.flush(&ctx);
    }, |_i, _u, msg| ctx.violation(&format!("c12:panic:{}", par::last_panic_location()), &format!("engine panicked: {}", msg), json!({})));
    mon::enable_board_monitors(false, false);
    mon::put_counters(&ctx);
    drain_hook_violations(&ctx, "c12");
    ctx.sample(json!({"kind": "driver level", "what": "after every apply and every undo of exhaustive walks and 300-ply games: piece boards pairwise disjoint, occupancy summaries == unions, get(sq) == locate on all 64 squares, one king per side, no pawn on rank 1/8, held right => king and rook at home, ep target on rank 3/6 with the double-stepped pawn in front and an empty square behind"}));
    ctx.sample(json!({"kind": "hook level", "what": "the same invariants on every AfterApply/AfterUndo event inside legality filtering, check annotation, search and position counting (transient states)"}));
    ctx.finish(ctx.counter("driver_states_checked") + ctx.counter("hook_inv_states"),
        "INV monitor evaluated through the public API (a) at every node of exhaustive walks from the corpus and of 300-ply seeded games, after apply and after undo, and (b) on the engine's AfterApply/AfterUndo hook events, i.e. in the transient states between a move and its undo inside generation, annotation, search and counting. distinct_nontrivial = distinct long games walked",
        &["invariants are evaluated after whole moves only, never mid-move"],
        &[("hook_inv_states", 100_000), ("driver_states_checked", 50_000), ("ep_target_set_transitions", 100), ("rights_loss_transitions", 100), ("hook_apply_castle", 10), ("hook_apply_en_passant", 5), ("hook_apply_promotion", 50)])
}

// ======================================================================================= C14

fn near_misses(p: &Pos, legal: &[Mv], prev: Option<(&Pos, &[Mv])>, rng: &mut Rng) -> Vec<String> {
    let mut out: Vec<String> = vec![];
    for m in legal {
        let s = p.san(m, legal);
        let body = s.trim_end_matches(|c| c == '+' || c == '#').to_string();
        // missing / extra capture mark, wrong suffix, dropped disambiguation, wrong promotion piece
        if body.contains('x') { out.push(s.replace('x', "")); } else if !body.starts_with('O') && m.piece != Pc::P { let mut t = body.clone(); t.insert(t.len() - 2, 'x'); out.push(t); }
        if s.ends_with('+') { out.push(body.clone()); out.push(format!("{}#", body)); } else if !s.ends_with('#') { out.push(format!("{}+", body)); }
        // wrong letter case: a piece letter in lower case reads as a file (bxc3 is a pawn capture, Bxc3 a bishop's)
        if m.piece != Pc::P && !body.starts_with('O') { let mut t = s.clone(); let c = t.remove(0); t.insert(0, c.to_ascii_lowercase()); out.push(t); }
        if m.piece == Pc::P { let mut t = s.clone(); let c = t.remove(0); t.insert(0, c.to_ascii_uppercase()); out.push(t); }
        if body.starts_with('O') { out.push(s.to_lowercase()); }
        if let Some(i) = body.find('=') { for q in ['Q', 'R', 'B', 'N', 'K'] { let mut t = body[..=i].to_string(); t.push(q); out.push(t); } out.push(body[..i].to_string()); }
        if m.piece != Pc::P && !body.starts_with('O') {
            let dest = &body[body.len() - 2..];
            let letter = &body[..1];
            out.push(format!("{}{}", letter, dest));
            out.push(format!("{}{}{}", letter, (b'a' + m.from % 8) as char, dest));
            out.push(format!("{}{}{}", letter, (b'1' + m.from / 8) as char, dest));
            out.push(format!("{}{}{}", letter, sq_name(m.from), dest));
            out.push(format!("{}{}{}", letter, (b'a' + (m.from % 8 + 1) % 8) as char, dest));
        }
    }
    // labels legal only for the other side / only in the previous position
    let mut other = p.clone(); other.turn = p.turn.opp(); other.ep = None;
    if other.is_consistent() { let ol = other.legal_moves(); for m in ol.iter().take(12) { out.push(other.san(m, &ol)); } }
    if let Some((pp, pl)) = prev { for m in pl.iter().take(12) { out.push(pp.san(m, pl)); } }
    // illegal targets and junk
    for _ in 0..12 { let pc = *rng.pick(&["N", "B", "R", "Q", "K", ""]); out.push(format!("{}{}", pc, sq_name(rng.below(64) as u8))); }
    for j in ["", "e9", "Ze4", "O-O-O-O", "0-0", "e2e4e5", "exd", "Nxx3", "++", "e4=Q", "Ke1=Q", "P e4"] { out.push(j.to_string()); }
    out.sort(); out.dedup();
    out
}

fn c14_position(ctx: &Ctx, l: &mut Local, root: &Pos, path: &[Mv], rng: &mut Rng, full_pairs: bool) {
    // build the game by playing the path through the Game API (callers toggle the turn)
    let mut game = Game::from_board(to_engine(root), 0);
    let mut p = root.clone();
    let mut prev: Option<(Pos, Vec<Mv>)> = None;
    // coordinate entry always promotes to a queen: follow the game only up to the first under-promotion
    let cut = path.iter().position(|m| matches!(m.kind, Kind::Promo(x) | Kind::PromoCapture(x) if x != Pc::Q)).unwrap_or(path.len());
    let path = &path[..cut];
    for m in path {
        let r = par::guarded(|| game.apply_chess_move_by_from_to_coordinates(bb(m.from), bb(m.to)));
        if !matches!(r, Ok(Ok(_))) { l.inc("path_move_rejected_(reported_below_if_reached)"); return; }
        game.board_mut().toggle_turn();
        prev = Some((p.clone(), p.legal_moves()));
        // coordinate entry promotes to a queen: follow what the property prescribes
        let pm = if let Kind::Promo(_) = m.kind { Mv { kind: Kind::Promo(Pc::Q), ..*m } } else if let Kind::PromoCapture(_) = m.kind { Mv { kind: Kind::PromoCapture(Pc::Q), ..*m } } else { *m };
        p = p.make(&pm);
    }
    let legal = p.legal_moves();
    let replay_base = json!({"root_fen": root.to_fen(), "path": path_str(root, path), "fen": p.to_fen()});
    let obs_now = observe(game.board());
    if obs_now != obs_of(&p) { ctx.violation("c14:accepted-coordinates-play-a-different-move", &format!("after entering {} as coordinate pairs from {} the game is not in the position the rules give: {}", path_str(root, path).join(" "), root.to_fen(), obs_diff(&obs_now, &obs_of(&p))), replay_base.clone()); return; }
    l.inc("positions");

    let mut try_input = |game: &mut Game, l: &mut Local, text: &str, coord: Option<(u8, u8)>| {
        let before = Snapshot::take(game.board());
        let saved_board: Board = game.board().clone();
        let hist_before: Vec<MoveKey> = game.verif_move_history().iter().map(ekey).collect();
        let r = par::guarded(|| match coord { Some((f, t)) => game.apply_chess_move_by_from_to_coordinates(bb(f), bb(t)), None => game.apply_chess_move_from_raw_algebraic_notation(text.to_string()) });
        let mut rp = replay_base.clone(); rp["input"] = json!(text);
        let r = match r { Ok(r) => r, Err(msg) => { ctx.violation(&format!("c14:panic:{}", par::last_panic_location()), &format!("input {:?} in {} panicked: {}", text, p.to_fen(), msg), rp); return; } };
        // classification by the rules
        let (must_accept, must_reject, denoted): (bool, bool, Vec<Mv>) = match coord {
            Some((f, t)) => { let d: Vec<Mv> = legal.iter().copied().filter(|m| m.from == f && m.to == t).collect(); (!d.is_empty(), d.is_empty(), d) }
            None => {
                let canonical: Vec<Mv> = legal.iter().copied().filter(|m| p.san(m, &legal) == text).collect();
                match parse_lenient(text) { None => (false, true, vec![]), Some(pat) => { let d: Vec<Mv> = legal.iter().copied().filter(|m| lenient_match(&pat, m)).collect(); (!canonical.is_empty(), d.is_empty(), if canonical.is_empty() { d } else { canonical }) } }
            }
        };
        l.inc("inputs_tried");
        match r {
            Ok(played) => {
                l.inc("inputs_accepted");
                if must_reject { ctx.violation(if coord.is_some() { "c14:accepts-illegal-coordinates" } else { "c14:accepts-string-naming-no-legal-move" }, &format!("input {:?} was accepted in {} although it names no legal move (played {})", text, p.to_fen(), key_str(&ekey(&played))), rp.clone()); }
                // it must have played exactly a denoted move (queen for a promoting coordinate pair)
                let want: Vec<Mv> = if coord.is_some() { let q: Vec<Mv> = denoted.iter().copied().filter(|m| !matches!(m.kind, Kind::Promo(x) | Kind::PromoCapture(x) if x != Pc::Q)).collect(); q } else { denoted.clone() };
                let after = observe(game.board());
                let ok = want.iter().any(|m| obs_of(&p.make(m)) == after && rkey(m) == ekey(&played));
                if !want.is_empty() && !ok { ctx.violation("c14:accepted-input-plays-a-different-move", &format!("input {:?} in {} played {}, which is not the move it denotes ({})", text, p.to_fen(), key_str(&ekey(&played)), want.iter().map(|m| p.uci(m)).collect::<Vec<_>>().join("/")), rp.clone()); }
                let hist_after: Vec<MoveKey> = game.verif_move_history().iter().map(ekey).collect();
                if hist_after.len() != hist_before.len() + 1 || hist_after[..hist_before.len()] != hist_before[..] || hist_after.last() != Some(&ekey(&played)) { ctx.violation("c14:history-not-extended-by-the-move", &format!("after accepting {:?} in {} the history went from {} to {} entries / does not end with the played move", text, p.to_fen(), hist_before.len(), hist_after.len()), rp.clone()); }
                if game.board().turn() != ecol(p.turn) { ctx.violation("c14:accepting-changes-turn", "accepting an input changed the side to move (callers toggle)", rp.clone()); }
                // restore the position (repetition bookkeeping included) for the next input
                *game.board_mut() = saved_board.clone();
                if Snapshot::take(game.board()) != before { l.inc("restore_failed_rebuilt_game"); *game = Game::from_board(to_engine(&p), 0); }
            }
            Err(_) => {
                l.inc("inputs_rejected");
                if must_accept { ctx.violation(if coord.is_some() { "c14:rejects-legal-coordinates" } else { "c14:rejects-standard-label" }, &format!("input {:?} names the legal move {} of {} but was rejected", text, denoted.first().map(|m| p.uci(m)).unwrap_or_default(), p.to_fen()), rp.clone()); }
                let after = Snapshot::take(game.board());
                let hist_after = game.verif_move_history().len();
                if after != before || hist_after != hist_before.len() {
                    let d = before.diff(&after).unwrap_or_else(|| "history length changed".into());
                    ctx.violation("c14:rejected-input-has-an-effect", &format!("rejected input {:?} in {} left a trace: {}", text, p.to_fen(), d), rp.clone());
                    *game = Game::from_board(to_engine(&p), 0);
                }
            }
        }
    };
    // all 4096 coordinate pairs (or a seeded sample containing every legal pair)
    let mut pairs = 0u64;
    for f in 0..64u8 { for t in 0..64u8 {
        let is_legal = legal.iter().any(|m| m.from == f && m.to == t);
        if !full_pairs && !is_legal && rng.below(16) != 0 { continue; }
        try_input(&mut game, l, &format!("{}{}", sq_name(f), sq_name(t)), Some((f, t)));
        pairs += 1;
    } }
    l.add("coordinate_pairs_tried", pairs);
    if full_pairs { l.inc("positions_with_all_4096_pairs"); }
    // every standard label, then near misses
    for m in &legal { let s = p.san(m, &legal); try_input(&mut game, l, &s, None); l.inc("standard_labels_tried"); if matches!(m.kind, Kind::CastleK | Kind::CastleQ) && (s.ends_with('+') || s.ends_with('#')) { l.inc("castling_labels_with_check_suffix"); } }
    let prev_ref = prev.as_ref().map(|(a, b)| (a, b.as_slice()));
    for s in near_misses(&p, &legal, prev_ref, rng) { try_input(&mut game, l, &s, None); l.inc("near_miss_strings_tried"); }
    l.distinct.push(p.key_hash());
}

/// One Game object, every ply entered as its standard label; before each ply the labels of the
/// other side and of the previous position are offered and must be refused (unless they also
/// denote a legal move here). Exercises whatever the game keeps between moves.
fn c14_notation_game(ctx: &Ctx, l: &mut Local, root: &Pos, path: &[Mv]) {
    let mut game = Game::from_board(to_engine(root), 0);
    let mut p = root.clone();
    let mut prev_labels: Vec<String> = vec![];
    for (i, m) in path.iter().enumerate() {
        let legal = p.legal_moves();
        if legal.is_empty() { break; }
        let replay = json!({"root_fen": root.to_fen(), "path": path_str(root, &path[..i]), "fen": p.to_fen(), "mode": "whole game typed in notation into one Game"});
        let labels: Vec<String> = legal.iter().map(|x| p.san(x, &legal)).collect();
        // listing the candidates is what the front ends do before every move
        let listed = par::guarded(|| game.enumerated_candidate_moves());
        if let Ok(listed) = &listed {
            l.inc("candidate_listings_compared");
            let mut a: Vec<String> = listed.iter().map(|x| x.1.clone()).collect(); a.sort();
            let mut b2 = labels.clone(); b2.sort();
            if a != b2 { ctx.violation("c14:listed-labels-are-not-this-position's", &format!("after {} plies typed into one game the listed candidate labels of {} are {:?}; the position's labels are {:?}", i, p.to_fen(), a, b2), replay.clone()); return; }
        }
        let mut other = p.clone(); other.turn = p.turn.opp(); other.ep = None;
        let mut offers: Vec<String> = prev_labels.clone();
        if other.is_consistent() { let ol = other.legal_moves(); offers.extend(ol.iter().map(|x| other.san(x, &ol))); }
        offers.sort(); offers.dedup();
        for s in offers.iter().take(24) {
            let denotes = match parse_lenient(s) { Some(pat) => legal.iter().any(|x| lenient_match(&pat, x)), None => false };
            if denotes { continue; }
            let before = Snapshot::take(game.board());
            let r = par::guarded(|| game.apply_chess_move_from_raw_algebraic_notation(s.clone()));
            l.inc("out_of_turn_or_stale_labels_offered");
            if let Ok(Ok(played)) = r {
                let mut rp = replay.clone(); rp["input"] = json!(s);
                ctx.violation("c14:accepts-string-naming-no-legal-move", &format!("in a game typed in notation, {:?} (a label of the other side or of the previous position) was accepted in {} and played {}", s, p.to_fen(), key_str(&ekey(&played))), rp);
                return;
            }
            if Snapshot::take(game.board()) != before { ctx.violation("c14:rejected-input-has-an-effect", &format!("rejected input {:?} changed the game in {}", s, p.to_fen()), replay.clone()); return; }
        }
        let san = p.san(m, &legal);
        let r = par::guarded(|| game.apply_chess_move_from_raw_algebraic_notation(san.clone()));
        l.inc("plies_typed_in_notation");
        match r {
            Ok(Ok(played)) if ekey(&played) == rkey(m) => {}
            Ok(Ok(played)) => { let mut rp = replay.clone(); rp["input"] = json!(san); ctx.violation("c14:accepted-input-plays-a-different-move", &format!("typing {:?} in {} played {}", san, p.to_fen(), key_str(&ekey(&played))), rp); return; }
            Ok(Err(_)) => { let mut rp = replay.clone(); rp["input"] = json!(san); ctx.violation("c14:rejects-standard-label", &format!("after {} plies typed into one game, the standard label {:?} of the legal move {} in {} was rejected", i, san, p.uci(m), p.to_fen()), rp); return; }
            Err(msg) => { ctx.violation(&format!("c14:panic:{}", par::last_panic_location()), &format!("typing {:?} panicked: {}", san, msg), replay); return; }
        }
        game.board_mut().toggle_turn();
        p = p.make(m);
        if observe(game.board()) != obs_of(&p) { ctx.violation("c14:accepted-input-plays-a-different-move", &format!("after typing {:?} the game is not in the rules' successor {}", san, p.to_fen()), json!({"root_fen": root.to_fen(), "path": path_str(root, &path[..=i])})); return; }
        prev_labels = labels;
    }
    l.inc("games_typed_in_notation");
    l.distinct.push(hash_bytes(path_str(root, path).join(" ").as_bytes()));
}

pub fn c14(o: &Opts) -> i32 {
    let ctx = default_ctx("C14", o, 70.0, 600.0);
    let q = ctx.quick();
    let mut r = Rng::new(o.seed).fork(tag("c14"));
    let corpus = gen::corpus();
    let mut units: Vec<(Pos, Vec<Mv>, u64, bool)> = vec![];
    if let Some(path) = &o.replay {
        let case = case_from_replay(&load_replay(path));
        units.push((case.root, case.path, 1, true));
    } else {
        for (i, (p, _)) in corpus.iter().enumerate() { units.push((p.clone(), vec![], o.seed + i as u64, i % 6 == 0)); }
        for g in 0..if q { 120 } else { 600 } {
            let root = match g % 3 { 0 => Pos::start(), 1 => corpus[r.below(corpus.len())].0.clone(), _ => gen::random_setup(&mut r) };
            let path = gen::random_game(&root, &mut r, gen::POLICIES[g % 5], 60);
            let step = if q { 9 } else { 5 };
            let mut k = r.below(step);
            while k <= path.len() { units.push((root.clone(), path[..k].to_vec(), o.seed * 77 + (g * 100 + k) as u64, r.chance(if q { 0.1 } else { 0.4 }))); k += step; }
        }
        for _ in 0..if q { 400 } else { 3000 } { let prof = *r.pick(&[2usize, 3, 5, 1]); units.push((gen::random_setup_profile(&mut r, prof), vec![], r.next_u64(), r.chance(0.1))); }
    }
    par::for_each(&units, par::threads(), |_i, (root, path, s, full)| {
        if ctx.budget_used() > 0.95 { ctx.count("positions_skipped_for_time_budget", 1); return; }
        let mut l = Local::default(); let mut rng = Rng::new(*s);
        c14_position(&ctx, &mut l, root, path, &mut rng, *full);
        l.flush(&ctx);
    }, |_i, u, msg| ctx.violation(&format!("c14:panic:{}", par::last_panic_location()), &format!("engine panicked: {}", msg), json!({"root_fen": u.0.to_fen(), "path": path_str(&u.0, &u.1)})));
    // whole games typed in notation into one Game (shuffling games on sparse material return to the same
    // placement with either side to move; others are special-move rich)
    if o.replay.is_none() {
        let mut gr = Rng::new(o.seed).fork(tag("c14-notation-games"));
        let mut games: Vec<(Pos, Vec<Mv>)> = vec![];
        for (fen, ms) in [("7k/8/8/8/8/8/8/K7 w - - 0 1", vec!["a1b1", "h8g8", "b1b2", "g8h8", "b2a1"]), ("4k3/8/8/8/8/8/8/4K2R w K - 0 1", vec!["h1h2", "e8d8", "h2h1", "d8e8", "e1e2", "e8d8", "e2e1", "d8e8"])] {
            let root = Pos::from_fen(fen).unwrap();
            if let Ok(path) = parse_path(&root, &ms.iter().map(|s| s.to_string()).collect::<Vec<_>>()) { games.push((root, path)); }
        }
        for g in 0..if q { 60 } else { 600 } {
            let root = match g % 3 { 0 => gen::random_ending(&mut gr), 1 => Pos::start(), _ => gen::random_setup(&mut gr) };
            let policy = if g % 3 == 0 { Policy::Shuffle } else { gen::POLICIES[g % 5] };
            let n = 30 + gr.below(50);
            let path = gen::random_game(&root, &mut gr, policy, n);
            games.push((root, path));
        }
        par::for_each(&games, par::threads(), |_i, (root, path)| { if ctx.budget_used() > 0.97 { return; } let mut l = Local::default(); c14_notation_game(&ctx, &mut l, root, path); l.flush(&ctx); },
            |_i, u, msg| ctx.violation(&format!("c14:panic:{}", par::last_panic_location()), &format!("engine panicked: {}", msg), json!({"root_fen": u.0.to_fen(), "path": path_str(&u.0, &u.1)})));
    }
    // command-line level: the real binary over stdin (a handful of games in the quick tier, more in thorough)
    if o.replay.is_none() { super::cli::c14_cli(&ctx, o); }
    ctx.sample(json!({"position": "after 1.e4 e5 2.Nf3 entered as coordinate pairs through the Game API", "inputs": ["all 4096 from/to pairs", "every standard label, e.g. Nc6", "near misses: Nxc6, Nc6+, Nbc6, N8c6, Ng8c6, labels legal only for White, labels of the previous position, junk"]}));
    ctx.finish(ctx.counter("inputs_tried"),
        "positions along seeded games played through the Game API (coordinate entry + caller-side turn toggle), corpus positions and like-piece/promotion/castling-rich set-ups; per position: all 4096 coordinate pairs (a seeded 1/16 sample of the illegal ones on most positions), every standard label of a legal move, and near-miss strings. Classes: MUST-accept (legal pair / standard SAN), MUST-reject (no legal move under the most lenient reading), DON'T-CARE (uniquely identifying but over/under-decorated: only conditional checks). Accepted => position is the reference successor of the denoted move (queen for a promoting pair), history grew by exactly that move, turn unchanged; rejected => full snapshot and history unchanged. distinct_nontrivial = distinct positions exercised",
        &["lenient reading per DESIGN A.3"],
        &[("positions_with_all_4096_pairs", if q { 15 } else { 150 }), ("standard_labels_tried", 2000), ("near_miss_strings_tried", 5000), ("inputs_accepted", 2000), ("plies_typed_in_notation", 500), ("out_of_turn_or_stale_labels_offered", 2000)])
}

// ======================================================================================= C15

fn read_book_source() -> Vec<(String, Vec<String>)> {
    let text = std::fs::read_to_string("/repo/opening_lines.txt").unwrap_or_default();
    let mut out = vec![];
    for line in text.lines() { let parts: Vec<&str> = line.split(": ").collect(); if parts.len() == 2 { out.push((parts[0].to_string(), parts[1].split(' ').map(|s| s.to_string()).collect())); } }
    out
}

fn ask_engine(ctx: &Ctx, game: &mut Game, p: &Pos, times: usize, source: &str, replay: &serde_json::Value) {
    let legal = p.legal_moves();
    if legal.is_empty() { return; }
    for _ in 0..times {
        let r = par::guarded(|| game.select_waterfall_book_then_alpha_beta_best_move());
        ctx.count("engine_answers", 1); ctx.count(&format!("engine_answers_{}", source), 1);
        match r {
            Err(msg) => ctx.violation(&format!("c15:panic:{}", par::last_panic_location()), &format!("asking the engine for its move in {} panicked: {}", p.to_fen(), msg), replay.clone()),
            Ok(Err(e)) => ctx.violation(&format!("c15:error-instead-of-move:{}", source), &format!("the engine has {} legal moves in {} ({}) but answered Err({})", legal.len(), p.to_fen(), source, e), replay.clone()),
            Ok(Ok(m)) => if !legal.iter().any(|x| rkey(x) == ekey(&m)) { ctx.violation(&format!("c15:illegal-move:{}", source), &format!("the engine's move {} is not legal in {}", key_str(&ekey(&m)), p.to_fen()), replay.clone()); },
        }
    }
}

pub fn c15(o: &Opts) -> i32 {
    let ctx = default_ctx("C15", o, 90.0, 500.0);
    let q = ctx.quick();
    let book = Book::default();
    let source = read_book_source();
    ctx.count("book_source_lines", source.len() as u64);
    // 1. every line of the source file is a legal sequence; remember all prefixes
    let mut prefixes: std::collections::HashSet<Vec<String>> = std::collections::HashSet::new();
    for (name, moves) in &source {
        let mut p = Pos::start();
        for (i, u) in moves.iter().enumerate() {
            let legal = p.legal_moves();
            ctx.count("book_source_moves_replayed", 1);
            match legal.iter().find(|m| u.len() >= 4 && sq_name(m.from) == u[0..2] && sq_name(m.to) == u[2..4]) {
                Some(m) => { p = p.make(m); prefixes.insert(moves[..=i].to_vec()); }
                None => { ctx.violation(&format!("c15:book:{}:{}:{}", name, i + 1, u), &format!("opening line {:?}: move {} ({}) is not legal after {}", name, i + 1, u, moves[..i].join(" ")), json!({"line": name, "ply": i + 1, "move": u, "prefix": moves[..i], "fen": p.to_fen()})); break; }
            }
        }
    }
    // 2. full DFS of the compiled trie through get_next_moves
    let mut stack: Vec<(Vec<BookMove>, Vec<String>, Pos, bool)> = vec![(vec![], vec![], Pos::start(), true)];
    let mut nodes: Vec<(Vec<String>, Pos, usize)> = vec![];
    while let Some((line, names, p, legal_so_far)) = stack.pop() {
        let next = book.get_next_moves(line.clone());
        ctx.count("trie_nodes", 1);
        if legal_so_far { nodes.push((names.clone(), p.clone(), next.len())); }
        for (bm, _name) in next {
            let u = format!("{}{}", sq_name(sq_index(bm.from_square())), sq_name(sq_index(bm.to_square())));
            let mut n2 = names.clone(); n2.push(u.clone());
            if !source.is_empty() && !prefixes.contains(&n2) && !source.iter().any(|(_, ms)| ms.len() >= n2.len() && ms[..n2.len()].iter().zip(n2.iter()).all(|(a, b)| a[..4.min(a.len())] == b[..])) { ctx.violation("c15:trie-node-not-in-source", &format!("compiled book contains {} which is no prefix of any line of opening_lines.txt", n2.join(" ")), json!({"path": n2})); }
            let legal = p.legal_moves();
            let mut l2 = line.clone(); l2.push(bm);
            match legal.iter().find(|m| m.from == sq_index(bm.from_square()) && m.to == sq_index(bm.to_square())) {
                Some(m) if legal_so_far => stack.push((l2, n2, p.make(m), true)),
                _ => {
                    if legal_so_far { ctx.violation(&format!("c15:book-node:{}:{}", names.len() + 1, u), &format!("compiled book suggests {} after {} which is not legal there", u, names.join(" ")), json!({"prefix": names, "move": u, "fen": p.to_fen()})); }
                    stack.push((l2, n2, p.clone(), false));
                }
            }
        }
    }
    for pre in &prefixes { let line: Vec<BookMove> = pre.iter().map(|u| BookMove::new(bb(parse_sq(&u[0..2]).unwrap()), bb(parse_sq(&u[2..4]).unwrap()))).collect(); let mut parent = line.clone(); let last = parent.pop().unwrap(); if !book.get_next_moves(parent).iter().any(|(m, _)| *m == last) { ctx.violation("c15:source-prefix-not-in-trie", &format!("prefix {} of opening_lines.txt is missing from the compiled book (stale build?)", pre.join(" ")), json!({"path": pre})); } }
    ctx.count("distinct_prefixes_in_source", prefixes.len() as u64);
    // 3. ask the engine at every trie node, at off-book siblings and on supplied positions
    #[derive(Clone)]
    enum U { Node(Vec<String>, Pos, usize), OffBook(Vec<String>, Pos), Supplied(Pos, String, u8), History(Pos, Vec<Mv>, u8) }
    let mut units: Vec<U> = nodes.iter().map(|(n, p, k)| U::Node(n.clone(), p.clone(), *k)).collect();
    let mut r = Rng::new(o.seed).fork(tag("c15"));
    for (n, p, _) in nodes.iter() {
        if r.chance(if q { 0.12 } else { 0.6 }) {
            let legal = p.legal_moves();
            let off: Vec<&Mv> = legal.iter().filter(|m| { let mut x = n.clone(); x.push(format!("{}{}", sq_name(m.from), sq_name(m.to))); !prefixes.contains(&x) }).collect();
            if !off.is_empty() { let m = *r.pick(&off); let mut x = n.clone(); x.push(p.uci(m)); units.push(U::OffBook(x, p.make(m))); }
        }
    }
    let corpus = gen::corpus();
    for (i, (p, t)) in corpus.iter().enumerate() { if !q || i % 5 == 0 { units.push(U::Supplied(p.clone(), t.clone(), 1 + (i % 2) as u8)); } }
    for _ in 0..if q { 10 } else { 150 } { units.push(U::Supplied(gen::random_setup(&mut r), "random set-up".into(), 1)); }
    // after any legal history: one Game, both sides' moves entered by the harness, the engine asked at every position
    units.push(U::History(Pos::from_fen("7k/7p/8/8/8/8/P7/K7 w - - 0 1").unwrap(), parse_path(&Pos::from_fen("7k/7p/8/8/8/8/P7/K7 w - - 0 1").unwrap(), &["a1b1", "h8g8", "b1b2", "g8h8", "b2a1"].iter().map(|s| s.to_string()).collect::<Vec<_>>()).unwrap(), 2));
    // a long quiet shuffle: positions recur three times and the half-move clock passes 100 while moves remain
    { let kn = Pos::from_fen("8/8/4k3/3Nn3/3nN3/4K3/8/8 w - - 0 1").unwrap(); let path = gen::random_game(&kn, &mut r, Policy::Shuffle, 112); units.push(U::History(kn, path, 1)); }
    { let st = Pos::start(); if let Ok(path) = parse_path(&st, &["g1f3", "g8f6", "f3g1", "f6g8", "g1f3", "g8f6", "f3g1", "f6g8", "g1f3"].iter().map(|s| s.to_string()).collect::<Vec<_>>()) { units.push(U::History(st, path, 2)); } }
    for g in 0..if q { 14 } else { 150 } {
        let root = match g % 3 { 0 => gen::random_ending(&mut r), 1 => Pos::start(), _ => gen::random_setup_profile(&mut r, 0) };
        let n = 16 + r.below(24);
        let path = gen::random_game(&root, &mut r, if g % 3 == 0 { Policy::Shuffle } else { Policy::Uniform }, n);
        units.push(U::History(root, path, 1 + (g % 2) as u8));
    }
    // supplied near-standard positions (one unit removed) whose histories match book lines square by square
    {
        let start = Pos::start();
        let mut odds: Vec<Pos> = vec![];
        for s in (0..16u8).chain(48..64u8) { if start.sq[s as usize].map(|x| x.1) != Some(Pc::K) { let mut p = start.clone(); p.sq[s as usize] = None; if s == 0 { p.rights &= !WQ; } if s == 7 { p.rights &= !WK; } if s == 56 { p.rights &= !BQ; } if s == 63 { p.rights &= !BK; } if p.is_consistent() { odds.push(p); } } }
        let mut count = 0;
        let want = if q { 40 } else { 600 };
        'outer: for round in 0..40 {
            for (li, (_name, moves)) in source.iter().enumerate() {
                let root = &odds[(li * 7 + round * 3 + r.below(odds.len())) % odds.len()];
                // follow the line while its moves are legal here (by from/to squares)
                let mut p = root.clone(); let mut path: Vec<Mv> = vec![];
                for u in moves { let legal = p.legal_moves(); match legal.iter().find(|m| u.len() >= 4 && sq_name(m.from) == u[0..2] && sq_name(m.to) == u[2..4] && !matches!(m.kind, Kind::Promo(_) | Kind::PromoCapture(_))) { Some(m) => { path.push(*m); p = p.make(m); } None => break } }
                if path.is_empty() { continue; }
                units.push(U::History(root.clone(), path, 1));
                count += 1;
                if count >= want { break 'outer; }
            }
        }
        ctx.count("odds_games_following_book_lines", count as u64);
    }
    par::for_each(&units, par::threads().min(8), |_i, u| {
        if ctx.budget_used() > 0.95 { ctx.count("units_skipped_for_time_budget", 1); return; }
        match u {
            U::Node(names, p, _) | U::OffBook(names, p) => {
                let (is_node, k) = match u { U::Node(_, _, k) => (true, *k), _ => (false, 0) };
                let mut game = Game::new(if names.len() % 2 == 0 { 1 } else { 2 });
                let mut ok = true;
                for uci in names { let (f, t) = (parse_sq(&uci[0..2]).unwrap(), parse_sq(&uci[2..4]).unwrap()); if !matches!(par::guarded(|| game.apply_chess_move_by_from_to_coordinates(bb(f), bb(t))), Ok(Ok(_))) { ok = false; break; } game.board_mut().toggle_turn(); }
                if !ok { ctx.count("history_could_not_be_entered_(C14_business)", 1); return; }
                let src = if !is_node { "off-book-history" } else if k > 0 { "book-node" } else { "book-leaf" };
                ask_engine(&ctx, &mut game, p, if k > 0 { 8 } else { 1 }, src, &json!({"history": names, "fen": p.to_fen()}));
                ctx.distinct(hash_bytes(names.join(" ").as_bytes()));
            }
            U::History(root, path, depth) => {
                let mut game = if *root == Pos::start() { Game::new(*depth) } else { Game::from_board(to_engine(root), *depth) };
                let mut p = root.clone();
                for (i, m) in path.iter().enumerate() {
                    if ctx.budget_used() > 0.95 { break; }
                    if true { ask_engine(&ctx, &mut game, &p, 1, "after-a-history", &json!({"root_fen": root.to_fen(), "path": path_str(root, &path[..i]), "fen": p.to_fen(), "depth": depth})); }
                    if matches!(m.kind, Kind::Promo(x) | Kind::PromoCapture(x) if x != Pc::Q) { break; }
                    if !matches!(par::guarded(|| game.apply_chess_move_by_from_to_coordinates(bb(m.from), bb(m.to))), Ok(Ok(_))) { ctx.count("history_could_not_be_entered_(C14_business)", 1); break; }
                    game.board_mut().toggle_turn();
                    p = p.make(m);
                    if i + 1 == path.len() { ask_engine(&ctx, &mut game, &p, 1, "after-a-history", &json!({"root_fen": root.to_fen(), "path": path_str(root, path), "fen": p.to_fen(), "depth": depth})); }
                }
                ctx.distinct(hash_bytes(path_str(root, path).join(" ").as_bytes()));
            }
            U::Supplied(p, t, depth) => {
                let mut game = Game::from_board(to_engine(p), *depth);
                ask_engine(&ctx, &mut game, p, 3, "supplied-position", &json!({"supplied_fen": p.to_fen(), "tag": t, "depth": depth}));
                ctx.distinct(p.key_hash());
            }
        }
    }, |_i, _u, msg| ctx.violation(&format!("c15:panic:{}", par::last_panic_location()), &format!("engine panicked: {}", msg), json!({})));
    if let Some((n, p, _)) = nodes.iter().find(|x| x.0.len() == 3) { ctx.sample(json!({"trie_node": n, "fen": p.to_fen()})); }
    if let Some((name, ms)) = source.first() { ctx.sample(json!({"book_line": name, "moves": ms})); }
    ctx.finish(ctx.counter("book_source_moves_replayed") + ctx.counter("trie_nodes") + ctx.counter("engine_answers"),
        "every line of /repo/opening_lines.txt is replayed on the reference rules from the standard start; the compiled trie (Book::default(), rebuilt from the current file by a forced clean build) is walked completely through get_next_moves and cross-checked with the file in both directions; the engine's book-then-search move is requested 8x at every trie node with children (random book choice), once at book leaves, at off-book siblings and 3x on supplied positions (corpus and random set-ups through Game::from_board), and must be Ok(legal move) whenever a legal move exists. distinct_nontrivial = trie nodes + distinct off-book histories + distinct supplied positions queried",
        &["search depth 1-2 for the off-book answers (any legal move is accepted)"],
        &[("trie_nodes", 50), ("engine_answers_book-node", 100), ("engine_answers_book-leaf", 10), ("engine_answers_supplied-position", 30), ("engine_answers_after-a-history", 100), ("book_source_lines", 10)])
}
