//! C07 (search answers with a legal move, board untouched), C08 (value and move equal exact
//! fixed-depth minimax), C09 (same answer under every schedule).

use super::*;
use crate::bridge::*;
use crate::mon::{self, SearchSink};
use crate::par;
use crate::sched::{Scheduler, Strategy, Stress};
use crate::snap::Snapshot;
use chess::alpha_beta_searcher::{alpha_beta_search, SearchContext, SearchError};
use chess::board::Board;
use chess::chess_move::chess_move::ChessMove;
use chess::evaluate;
use chess::game::game::{Game, GameError};
use chess::move_generator::MoveGenerator;
use chess::verif::SearchEvent;
use serde_json::json;
use std::cell::RefCell;
use std::collections::HashMap;
use std::sync::atomic::{AtomicU64, Ordering};
use std::sync::{Arc, Mutex};
use std::time::Duration;

// --------------------------------------------------------------------------- helpers

fn search_positions(seed: u64, n_setups: usize, n_endings: usize, max_pieces: usize) -> Vec<(Pos, String)> {
    let mut out: Vec<(Pos, String)> = gen::corpus().into_iter().filter(|(p, _)| p.piece_count() <= max_pieces).collect();
    let mut r = Rng::new(seed).fork(tag("search-pos"));
    for _ in 0..n_setups { let p = gen::random_setup(&mut r); if p.piece_count() <= max_pieces { out.push((p, "random set-up".into())); } }
    for _ in 0..n_endings { out.push((gen::random_ending(&mut r), "random ending".into())); }
    out
}

/// Nodes in the full tree at plies 1..=d (upper bound for the engine's visited-node counter).
fn tree_bound(p: &Pos, d: u32) -> u64 { if d == 0 { 0 } else { p.perft_levels(d).iter().sum() } }

struct Outcome { result: Result<ChessMove, String>, score: Option<i16>, visited: usize, changed: Option<String> }

fn run_search(b: &mut Board, ctx: &mut SearchContext, g: &mut MoveGenerator, pool: &rayon::ThreadPool) -> Result<Outcome, String> {
    let before = Snapshot::take(b);
    let r = par::guarded(|| pool.install(|| alpha_beta_search(ctx, b, g)));
    let r = r?;
    let changed = before.diff(&Snapshot::take(b));
    Ok(Outcome { result: r.map_err(|e| match e { SearchError::NoAvailableMoves => "NoAvailableMoves".to_string(), SearchError::DepthTooLow => "DepthTooLow".to_string() }), score: ctx.last_score(), visited: ctx.searched_position_count(), changed })
}

// ======================================================================================= C07

#[derive(Clone)]
struct C07Case { p: Pos, tag: String, depth: u8, pool: usize, via_game: bool, reuse: bool, history_state: u8 }

fn c07_one(ctx: &Ctx, c: &C07Case, shared: &Mutex<(SearchContext, MoveGenerator)>) {
    let p = &c.p;
    let legal = p.legal_moves();
    let rk: Vec<MoveKey> = legal.iter().map(rkey).collect();
    let replay = json!({"fen": p.to_fen(), "depth": c.depth, "pool": c.pool, "via_game": c.via_game, "reused_context": c.reuse, "tag": c.tag, "history_state": c.history_state});
    let pool = mon::pool_with_session(c.pool, None);
    let mut b = to_engine(p);
    // reachable states in which the game is drawn by history although moves exist: the search must still answer
    match c.history_state {
        1 => { b.push_halfmove_clock((100 + c.depth as u16 * 7) as _); ctx.count("roots_with_half_move_clock_at_or_beyond_100", 1); }
        2 => { for _ in 0..3 { b.count_current_position(); } ctx.count("roots_registered_three_times", 1); }
        3 => { b.count_current_position(); ctx.count("terminal_roots_registered_once", 1); }
        _ => {}
    }
    let (res, visited, changed): (Result<ChessMove, String>, Option<usize>, Option<String>);
    if c.via_game {
        let mut game = Game::from_board(b.clone(), c.depth);
        let before = Snapshot::take(game.board());
        let r = par::guarded(|| pool.install(|| game.select_alpha_beta_best_move()));
        match r {
            Err(msg) => { ctx.violation(&format!("c07:panic:{}", par::last_panic_location()), &format!("Game::select_alpha_beta_best_move panicked on {} (depth {}): {}", p.to_fen(), c.depth, msg), replay); return; }
            Ok(x) => { res = x.map_err(|e| match e { GameError::SearchError { error: SearchError::NoAvailableMoves } => "NoAvailableMoves".into(), GameError::SearchError { error: SearchError::DepthTooLow } => "DepthTooLow".into(), other => format!("{:?}", other) }); }
        }
        visited = Some(game.searched_position_count());
        changed = before.diff(&Snapshot::take(game.board()));
    } else {
        let out = if c.reuse {
            let mut g = shared.lock().unwrap();
            let (sc, mg) = &mut *g;
            if sc.search_depth() != c.depth { *sc = SearchContext::new(c.depth); }
            run_search(&mut b, sc, mg, &pool)
        } else { run_search(&mut b, &mut SearchContext::new(c.depth), &mut MoveGenerator::new(), &pool) };
        match out {
            Err(msg) => { ctx.violation(&format!("c07:panic:{}", par::last_panic_location()), &format!("alpha_beta_search panicked on {} (depth {}, {} legal moves): {}", p.to_fen(), c.depth, legal.len(), msg), replay); return; }
            Ok(o) => { res = o.result; visited = Some(o.visited); changed = o.changed; }
        }
    }
    // the same context asked again about the very same position (a hint followed by the move, a recurring position)
    if c.reuse && !c.via_game && c.depth >= 1 && !legal.is_empty() {
        let mut rb = to_engine(p);
        let mut g = shared.lock().unwrap();
        let (sc, mg) = &mut *g;
        if sc.search_depth() == c.depth {
            match run_search(&mut rb, sc, mg, &pool) {
                Err(msg) => { ctx.violation(&format!("c07:panic:{}", par::last_panic_location()), &format!("searching {} a second time with the same context panicked: {}", p.to_fen(), msg), json!({"fen": p.to_fen(), "depth": c.depth, "pool": c.pool, "second_search_with_the_same_context": true})); }
                Ok(o2) => { ctx.count("same_position_searched_twice_with_the_same_context", 1); match &o2.result { Ok(m) if rk.contains(&ekey(m)) => {} other => ctx.violation("c07:second-search-answer", &format!("second search of {} with the same context answered {:?}", p.to_fen(), other.as_ref().map(|m| format!("{}", m))), json!({"fen": p.to_fen(), "depth": c.depth})) } }
            }
        }
    }
    // the same context (and generator) asked about the same placement with the other side to move
    if c.reuse && !c.via_game && c.depth >= 1 {
        let mut t = p.clone(); t.turn = p.turn.opp(); t.ep = None;
        if t.is_consistent() && !t.legal_moves().is_empty() {
            let mut tb = to_engine(&t);
            let mut g = shared.lock().unwrap();
            let (sc, mg) = &mut *g;
            if sc.search_depth() == c.depth {
                if let Ok(o2) = run_search(&mut tb, sc, mg, &pool) {
                    ctx.count("same_placement_other_side_to_move_with_the_same_context", 1);
                    let tl: Vec<MoveKey> = t.legal_moves().iter().map(rkey).collect();
                    match &o2.result {
                        Ok(m) if tl.contains(&ekey(m)) => {}
                        Ok(m) => ctx.violation("c07:illegal-move", &format!("after searching {} the same context was asked about the same placement with {:?} to move and answered {} which is not legal there", p.to_fen(), t.turn, key_str(&ekey(m))), json!({"fen": t.to_fen(), "searched_before_with_the_same_context": p.to_fen(), "depth": c.depth, "pool": c.pool})),
                        Err(e) => ctx.violation("c07:error-with-legal-moves", &format!("{} has legal moves but the search answered Err({}) (context used before on the same placement with the other side to move)", t.to_fen(), e), json!({"fen": t.to_fen(), "searched_before_with_the_same_context": p.to_fen(), "depth": c.depth})),
                    }
                }
            }
        }
    }
    ctx.count("searches", 1);
    ctx.count(&format!("searches_depth_{}", c.depth), 1);
    ctx.count(&format!("searches_pool_{}", c.pool), 1);
    if legal.len() >= 2 && c.depth >= 1 { ctx.distinct(p.key_hash() ^ (c.depth as u64) << 56 ^ (c.via_game as u64) << 55 ^ (c.reuse as u64) << 54); }
    if let Some(d) = changed { ctx.violation("c07:board-changed", &format!("the caller's board differs after the search on {} (depth {}): {}", p.to_fen(), c.depth, d), replay.clone()); }
    if c.depth == 0 {
        ctx.count("depth_zero_requests", 1);
        let ok = match &res { Err(e) if e == "DepthTooLow" => true, Err(e) if e == "NoAvailableMoves" && legal.is_empty() => true, _ => false };
        if !ok { ctx.violation("c07:depth-zero", &format!("depth 0 on {} answered {:?} instead of DepthTooLow", p.to_fen(), res.as_ref().map(|m| format!("{}", m))), replay); }
        return;
    }
    if legal.is_empty() {
        ctx.count(if p.in_check(p.turn) { "checkmated_roots" } else { "stalemated_roots" }, 1);
        if !matches!(&res, Err(e) if e == "NoAvailableMoves") { ctx.violation("c07:no-moves-answer", &format!("no legal move in {} but the search answered {:?}", p.to_fen(), res.as_ref().map(|m| format!("{}", m))), replay); }
        return;
    }
    if legal.len() == 1 { ctx.count("single_legal_move_roots", 1); }
    if p.in_check(p.turn) { ctx.count("in_check_roots", 1); }
    match &res {
        Err(e) => ctx.violation("c07:error-with-legal-moves", &format!("{} legal moves in {} but the search (depth {}) answered Err({})", legal.len(), p.to_fen(), c.depth, e), replay.clone()),
        Ok(m) => if !rk.contains(&ekey(m)) { ctx.violation("c07:illegal-move", &format!("search (depth {}) on {} returned {} which is not a legal move", c.depth, p.to_fen(), key_str(&ekey(m))), replay.clone()); },
    }
    if let Some(v) = visited {
        let bound = tree_bound(p, c.depth as u32);
        ctx.count("node_bound_checks", 1);
        if v as u64 > bound { ctx.violation("c07:visits-more-than-the-tree", &format!("search (depth {}) on {} visited {} nodes; the full tree has {}", c.depth, p.to_fen(), v, bound), replay.clone()); }
    }
    if ctx.sample_count() < 10 { ctx.sample(json!({"fen": p.to_fen(), "depth": c.depth, "pool": c.pool, "legal_moves": legal.len(), "answer": res.as_ref().map(|m| format!("{}", m)).unwrap_or_else(|e| e.clone()) })); }
}

pub fn c07(o: &Opts) -> i32 {
    let ctx = default_ctx("C07", o, 90.0, 700.0);
    let q = ctx.quick();
    let positions = search_positions(o.seed, if q { 40 } else { 400 }, if q { 30 } else { 300 }, 32);
    let mut r = Rng::new(o.seed).fork(tag("c07"));
    let pools = [1usize, 2, 3, 8, 16, 64];
    let mut cases: Vec<C07Case> = vec![];
    // terminal and special roots at every depth
    for (p, t) in positions.iter() {
        let legal = p.legal_moves().len();
        let special = legal <= 1 || p.in_check(p.turn);
        let maxd: u8 = if p.piece_count() > 16 { if q { 2 } else { 3 } } else if q { 3 } else { 4 };
        if special { for d in 0..=maxd.min(3) { cases.push(C07Case { p: p.clone(), tag: t.clone(), depth: d, pool: *r.pick(&pools), via_game: d % 2 == 1, reuse: false, history_state: if legal == 0 && d == 2 { 3 } else { 0 } }); } }
        else {
            let d = 1 + r.below(maxd as usize) as u8;
            cases.push(C07Case { p: p.clone(), tag: t.clone(), depth: d, pool: *r.pick(&pools), via_game: r.chance(0.3), reuse: r.chance(0.3), history_state: 0 });
            if r.chance(0.2) { cases.push(C07Case { p: p.clone(), tag: t.clone(), depth: 1 + r.below(2) as u8, pool: *r.pick(&pools), via_game: r.chance(0.5), reuse: false, history_state: 1 + r.below(2) as u8 }); }
            if r.chance(0.15) { cases.push(C07Case { p: p.clone(), tag: t.clone(), depth: 0, pool: 2, via_game: r.chance(0.5), reuse: false, history_state: 0 }); }
        }
    }
    if let Some(path) = &o.replay {
        let v = load_replay(path);
        cases = vec![C07Case { p: Pos::from_fen(v["fen"].as_str().unwrap_or("")).unwrap(), tag: "replay".into(), depth: v["depth"].as_u64().unwrap_or(1) as u8, pool: v["pool"].as_u64().unwrap_or(1) as usize, via_game: v["via_game"].as_bool().unwrap_or(false), reuse: false, history_state: v["history_state"].as_u64().unwrap_or(0) as u8 }];
    }
    let shared = Mutex::new((SearchContext::new(2), MoveGenerator::new()));
    par::for_each(&cases, 4, |_i, c| { if ctx.budget_used() < 0.95 { c07_one(&ctx, c, &shared) } else { ctx.count("cases_skipped_for_time_budget", 1) } },
        |_i, c, msg| ctx.violation(&format!("c07:panic:{}", par::last_panic_location()), &format!("panic around the search on {}: {}", c.p.to_fen(), msg), json!({"fen": c.p.to_fen(), "depth": c.depth})));
    ctx.finish(ctx.counter("searches"),
        "alpha_beta_search and Game::select_alpha_beta_best_move on corpus positions (mated, stalemated, single-move, in-check ones at every depth 0..3), random set-ups and endings; rayon pools of 1/2/3/8/16/64 threads; brand-new and reused contexts/generators. Judged: Ok(move) must be in the reference legal set, no legal move => NoAvailableMoves, depth 0 => DepthTooLow, no panic, visited-node counter <= size of the full tree (termination on logical steps), full board snapshot identical before/after. distinct_nontrivial = distinct (position, depth, entry point, context mode) with >= 2 legal moves",
        &["any legal move is accepted here; optimality is C08"],
        &[("checkmated_roots", 4), ("stalemated_roots", 4), ("single_legal_move_roots", 2), ("depth_zero_requests", 5), ("searches", if q { 100 } else { 1000 })])
}

// ======================================================================================= C08

pub struct MateScores { pub white_mated: Vec<i32>, pub black_mated: Vec<i32> }

pub fn probe_mate_scores() -> MateScores {
    let wm = Pos::from_fen("7k/8/8/8/8/8/5PPP/r5K1 w - - 0 1").unwrap();
    let bm = wm.twin_mirror();
    let mut out = MateScores { white_mated: vec![], black_mated: vec![] };
    for (p, v) in [(&wm, &mut out.white_mated), (&bm, &mut out.black_mated)] {
        let mut g = MoveGenerator::new();
        for r in 0..=12u8 { let mut b = to_engine(p); v.push(evaluate::score(&mut b, &mut g, ecol(p.turn), r) as i32); }
    }
    out
}

pub fn reference_minimax(p: &Pos, depth: u32, ms: &MateScores, leaves: &mut u64) -> i32 {
    let mut leaf = |q: &Pos, st: Status, rem: u32| -> i32 {
        match st {
            Status::Ongoing => evaluate::board_material_score(&to_engine(q)) as i32,
            Status::Stalemate => 0,
            Status::Checkmate => if q.turn == Col::W { ms.white_mated[rem as usize] } else { ms.black_mated[rem as usize] },
        }
    };
    minimax(p, depth, &mut leaf, leaves)
}

/// CACHEFUNC: shadow of the shared search cache; flags hits that return an entry stored for a
/// different (remaining depth, side to move, window) than the reading node's. Diagnostic only.
pub struct CacheFunc {
    entries: Mutex<HashMap<u64, (u64, u8, bool, i16, i16, i16)>>,
    pub hits: AtomicU64, pub cross_identity_hits: AtomicU64, pub stores: AtomicU64,
    pub first: Mutex<Option<String>>,
    /// node oracle (diagnostic): sampled stores / hits checked against the fail-soft alpha-beta contract
    mates: Option<MateScores>,
    pub contract_checked: AtomicU64, pub contract_unsound: AtomicU64,
    pub first_unsound: Mutex<Option<String>>,
    pub leads: Mutex<Vec<Vec<(Pos, u8)>>>,
}
thread_local! {
    static NODES: RefCell<Vec<(u64, u8, i16, i16, bool)>> = const { RefCell::new(Vec::new()) };
    static NODE_POS: RefCell<Vec<Option<Pos>>> = const { RefCell::new(Vec::new()) };
}
impl CacheFunc {
    pub fn new() -> Arc<CacheFunc> { Self::build(None) }
    pub fn with_node_oracle(ms: &MateScores) -> Arc<CacheFunc> { Self::build(Some(MateScores { white_mated: ms.white_mated.clone(), black_mated: ms.black_mated.clone() })) }
    fn build(mates: Option<MateScores>) -> Arc<CacheFunc> { Arc::new(CacheFunc { entries: Mutex::new(HashMap::new()), hits: AtomicU64::new(0), cross_identity_hits: AtomicU64::new(0), stores: AtomicU64::new(0), first: Mutex::new(None), mates, contract_checked: AtomicU64::new(0), contract_unsound: AtomicU64::new(0), first_unsound: Mutex::new(None), leads: Mutex::new(vec![]) }) }

    /// Sound alpha-beta bounds: inside the window the value is exact; at or below alpha it is an upper bound,
    /// at or above beta a lower bound of the exact minimax value of the node.
    fn check_contract(&self, key: u64, value: i16, how: &str) {
        let ms = match &self.mates { Some(m) => m, None => return };
        let top = match NODES.with(|n| n.borrow().last().copied()) { Some(t) => t, None => return };
        let (depth, alpha, beta) = (top.1, top.2 as i32, top.3 as i32);
        let rate = match depth { 0 => 32, 1 => 8, 2 => 2, 3 => 16, _ => return };
        if (key ^ (value as u16 as u64) << 3).wrapping_mul(0x9E37_79B9_7F4A_7C15) >> 40 & 0xffff >= (0x10000 / rate) as u64 { return; }
        let pos = match NODE_POS.with(|n| n.borrow().last().cloned().flatten()) { Some(p) => p, None => return };
        if depth as usize >= ms.white_mated.len() { return; }
        let mut leaves = 0u64;
        let exact = reference_minimax(&pos, depth as u32, ms, &mut leaves);
        self.contract_checked.fetch_add(1, Ordering::Relaxed);
        let v = value as i32;
        // the necessary condition for any sound alpha-beta variant (fail-soft, fail-hard, forward pruning with a
        // safe margin): inside the window the value is exact; a value at or below alpha only claims "exact <= alpha",
        // a value at or above beta only claims "exact >= beta"
        let sound = if v > alpha && v < beta { v == exact } else if v <= alpha { exact <= alpha } else { exact >= beta };
        if !sound {
            self.contract_unsound.fetch_add(1, Ordering::Relaxed);
            // keep the chain of ancestor positions as leads for root-level follow-up searches
            let chain: Vec<(Pos, u8)> = NODE_POS.with(|n| n.borrow().iter().cloned().flatten().collect::<Vec<Pos>>()).into_iter().zip(NODES.with(|n| n.borrow().iter().map(|x| x.1).collect::<Vec<u8>>())).collect();
            { let mut l = self.leads.lock().unwrap(); if l.len() < 3 { l.push(chain); } }
            let mut f = self.first_unsound.lock().unwrap();
            if f.is_none() { *f = Some(format!("{} of value {} for node {} (remaining depth {}, window ({}, {})) is not a sound bound: the node's exact minimax value is {}", how, v, pos.to_fen(), depth, alpha, beta, exact)); }
        }
    }
}
impl SearchSink for CacheFunc {
    fn event(&self, ev: &SearchEvent) {
        match ev {
            SearchEvent::TaskBegin { .. } => { NODES.with(|n| n.borrow_mut().clear()); NODE_POS.with(|n| n.borrow_mut().clear()); }
            SearchEvent::NodeEnter { hash, depth, alpha, beta, maximizing } => {
                NODES.with(|n| n.borrow_mut().push((*hash, *depth, *alpha, *beta, *maximizing)));
                if self.mates.is_some() {
                    let mut pos = mon::TRACKED.with(|t| t.borrow().clone());
                    if let Some(p) = pos.as_mut() { p.turn = if *maximizing { Col::W } else { Col::B }; p.halfmove = 0; }
                    NODE_POS.with(|n| n.borrow_mut().push(pos));
                }
            }
            SearchEvent::NodeExit => { NODES.with(|n| { n.borrow_mut().pop(); }); if self.mates.is_some() { NODE_POS.with(|n| { n.borrow_mut().pop(); }); } }
            SearchEvent::AfterCacheWrite { key, value } => {
                self.stores.fetch_add(1, Ordering::Relaxed);
                self.check_contract(*key, *value, "store");
                if let Some(top) = NODES.with(|n| n.borrow().last().copied()) { self.entries.lock().unwrap().insert(*key, (top.0, top.1, top.4, top.2, top.3, *value)); }
            }
            SearchEvent::AfterCacheRead { key, hit: Some(v) } => {
                self.hits.fetch_add(1, Ordering::Relaxed);
                self.check_contract(*key, *v, "cache hit");
                if let Some(top) = NODES.with(|n| n.borrow().last().copied()) {
                    if let Some(e) = self.entries.lock().unwrap().get(key).copied() {
                        if e.1 != top.1 || e.2 != top.4 {
                            self.cross_identity_hits.fetch_add(1, Ordering::Relaxed);
                            let mut f = self.first.lock().unwrap();
                            if f.is_none() { *f = Some(format!("node (key {:#x}, remaining depth {}, maximizing {}) was served value {} stored for (remaining depth {}, maximizing {})", top.0, top.1, top.4, v, e.1, e.2)); }
                        }
                    }
                }
            }
            _ => {}
        }
    }
}

#[derive(Clone)]
enum C08Case { Fresh { p: Pos, depth: u8, pool: usize }, GameReuse { p: Pos, depth: u8, plies: usize, pool: usize }, Prewarmed { p: Pos, others: Vec<Pos>, depth: u8, pool: usize } }

fn quiet_enough(p: &Pos) -> bool { p.legal_moves().len() >= 2 }

fn compare_search(ctx: &Ctx, ms: &MateScores, p: &Pos, depth: u8, mv: &ChessMove, score: Option<i16>, mode: &str, extra: serde_json::Value, cf: &CacheFunc) {
    let mut leaves = 0u64;
    let want = reference_minimax(p, depth as u32, ms, &mut leaves);
    ctx.count("searches_compared", 1);
    ctx.count(&format!("searches_compared_{}", mode), 1);
    ctx.count("reference_minimax_nodes", leaves);
    ctx.distinct(p.key_hash() ^ (depth as u64) << 56 ^ crate::rng::tag(mode));
    let mut replay = json!({"fen": p.to_fen(), "depth": depth, "mode": mode, "minimax": want, "engine_score": score, "engine_move": format!("{}", mv)});
    if let serde_json::Value::Object(m) = extra { for (k, v) in m { replay[k] = v; } }
    if let Some(f) = cf.first.lock().unwrap().clone() { replay["first_non_functional_cache_hit"] = json!(f); }
    if let Some(f) = cf.first_unsound.lock().unwrap().clone() { replay["first_unsound_interior_bound"] = json!(f); }
    let score = match score { Some(s) => s as i32, None => { ctx.violation("c08:no-score", &format!("search on {} left no score", p.to_fen()), replay); return; } };
    if score != want {
        ctx.violation(&format!("c08:score-differs-from-minimax:{}", mode), &format!("depth-{} search on {} ({}) reports {}; exact minimax is {}", depth, p.to_fen(), mode, score, want), replay);
        return;
    }
    // the returned move must attain the value
    let legal = p.legal_moves();
    if let Some(rm) = legal.iter().find(|m| rkey(m) == ekey(mv)) {
        let mut n2 = 0u64;
        let child = reference_minimax(&p.make(rm), depth as u32 - 1, ms, &mut n2);
        if child != want { ctx.violation(&format!("c08:move-does-not-attain-value:{}", mode), &format!("depth-{} search on {} ({}) returned {} whose minimax value is {}, but the position's value is {}", depth, p.to_fen(), mode, p.uci(rm), child, want), replay); }
    } else { ctx.count("returned_move_not_legal_(C07_business)", 1); }
    if ctx.sample_count() < 10 { ctx.sample(json!({"fen": p.to_fen(), "depth": depth, "mode": mode, "engine_score": score, "minimax": want, "move": format!("{}", mv)})); }
}

/// Lines L0 -> L1 -> P (one legal move each) into a position P whose mover can promote, where the promotion that is
/// best when P's children are only evaluated differs from the one that is strictly best one ply deeper.
fn underpromotion_lines(r: &mut Rng, ms: &MateScores, want: usize, tries: usize) -> Vec<(Pos, Pos)> {
    let mut out = vec![];
    for _ in 0..tries {
        if out.len() >= want { break; }
        let s = *r.pick(&[Col::W, Col::B]);
        let mut p = Pos::empty();
        let mut free: Vec<u8> = (0..64u8).collect(); r.shuffle(&mut free);
        let file = r.below(8) as u8;
        let psq = if s == Col::W { 48 + file } else { 8 + file };
        free.retain(|x| *x != psq);
        p.sq[psq as usize] = Some((s, Pc::P));
        p.sq[free[0] as usize] = Some((s, Pc::K));
        p.sq[free[1] as usize] = Some((s.opp(), Pc::K));
        let mut k = 2;
        for pc in [Pc::Q, Pc::R, Pc::N, Pc::B] { if r.chance(0.6) { p.sq[free[k] as usize] = Some((s.opp(), pc)); k += 1; } }
        for pc in [Pc::R, Pc::N, Pc::B] { if r.chance(0.3) { p.sq[free[k] as usize] = Some((s, pc)); k += 1; } }
        p.turn = s;
        if !p.is_consistent() { continue; }
        let moves = p.legal_moves();
        if !moves.iter().any(|m| matches!(m.kind, Kind::Promo(_) | Kind::PromoCapture(_))) || moves.len() > 30 { continue; }
        let sign = if s == Col::W { 1 } else { -1 };
        let mut n = 0u64;
        let vals: Vec<(i32, i32)> = moves.iter().map(|m| { let c = p.make(m); (sign * reference_minimax(&c, 0, ms, &mut n), sign * reference_minimax(&c, 1, ms, &mut n)) }).collect();
        let best = |f: &dyn Fn(&(i32, i32)) -> i32| -> Option<usize> { let mx = vals.iter().map(|v| f(v)).max()?; let w: Vec<usize> = (0..vals.len()).filter(|i| f(&vals[*i]) == mx).collect(); if w.len() == 1 { Some(w[0]) } else { None } };
        let (Some(a), Some(b)) = (best(&|v| v.0), best(&|v| v.1)) else { continue };
        let (ma, mb) = (&moves[a], &moves[b]);
        let promo = |m: &Mv| matches!(m.kind, Kind::Promo(_) | Kind::PromoCapture(_));
        if a == b || !promo(ma) || !promo(mb) || ma.from != mb.from || ma.to != mb.to { continue; }
        // two plies back: a move of the other side into P, and before that a move of the promoting side
        let l1s = gen::retro_predecessors(&p, r, 6);
        'l1: for l1 in l1s {
            if l1.legal_moves().len() > 6 { continue; }
            for l0 in gen::retro_predecessors(&l1, r, 4) {
                if l0.legal_moves().len() <= 30 && l0.legal_moves().len() >= 2 { out.push((l0, l1.clone())); break 'l1; }
            }
        }
    }
    out
}

fn c08_one(ctx: &Ctx, ms: &MateScores, c: &C08Case) {
    let oracle = match c { C08Case::Fresh { p, depth, .. } | C08Case::Prewarmed { p, depth, .. } | C08Case::GameReuse { p, depth, .. } => (p.key_hash() ^ *depth as u64) % 3 == 0 && *depth <= 4 };
    let cf = if oracle { CacheFunc::with_node_oracle(ms) } else { CacheFunc::new() };
    match c {
        C08Case::Fresh { p, depth, pool } => {
            let tp = mon::pool_with_session_tracking(*pool, Some(cf.clone() as Arc<dyn SearchSink>), oracle);
            let mut b = to_engine(p);
            let mut sc = SearchContext::new(*depth);
            match run_search(&mut b, &mut sc, &mut MoveGenerator::new(), &tp) {
                Ok(Outcome { result: Ok(mv), score, .. }) => compare_search(ctx, ms, p, *depth, &mv, score, "fresh-context", json!({"pool": pool}), &cf),
                Ok(Outcome { result: Err(e), .. }) => ctx.count(&format!("search_errors_{}_(C07_business)", e), 1),
                Err(msg) => ctx.violation(&format!("c08:panic:{}", par::last_panic_location()), &format!("search panicked on {}: {}", p.to_fen(), msg), json!({"fen": p.to_fen(), "depth": depth})),
            }
        }
        C08Case::Prewarmed { p, others, depth, pool } => {
            let tp = mon::pool_with_session_tracking(*pool, Some(cf.clone() as Arc<dyn SearchSink>), oracle);
            let mut sc = SearchContext::new(*depth);
            let mut g = MoveGenerator::new();
            for op in others { let mut ob = to_engine(op); let _ = run_search(&mut ob, &mut sc, &mut g, &tp); }
            let mut b = to_engine(p);
            match run_search(&mut b, &mut sc, &mut g, &tp) {
                Ok(Outcome { result: Ok(mv), score, .. }) => compare_search(ctx, ms, p, *depth, &mv, score, "context-used-on-other-positions", json!({"pool": pool, "context_history": others.iter().map(|x| x.to_fen()).collect::<Vec<_>>()}), &cf),
                Ok(_) => ctx.count("search_errors_(C07_business)", 1),
                Err(msg) => ctx.violation(&format!("c08:panic:{}", par::last_panic_location()), &format!("search panicked on {}: {}", p.to_fen(), msg), json!({"fen": p.to_fen(), "depth": depth})),
            }
        }
        C08Case::GameReuse { p, depth, plies, pool } => {
            let tp = mon::pool_with_session_tracking(*pool, Some(cf.clone() as Arc<dyn SearchSink>), oracle);
            let mut game = Game::from_board(to_engine(p), *depth);
            let mut cur = p.clone();
            let mut played: Vec<String> = vec![];
            for ply in 0..*plies {
                if ctx.out_of_budget() { break; }
                if cur.legal_moves().is_empty() || cur.halfmove as usize + *depth as usize + 2 >= 40 { break; }
                let r = par::guarded(|| tp.install(|| game.select_alpha_beta_best_move()));
                let mv = match r { Ok(Ok(m)) => m, Ok(Err(_)) => { ctx.count("search_errors_(C07_business)", 1); break; } Err(msg) => { ctx.violation(&format!("c08:panic:{}", par::last_panic_location()), &format!("search panicked on {}: {}", cur.to_fen(), msg), json!({"start_fen": p.to_fen(), "moves_played": played})); break; } };
                compare_search(ctx, ms, &cur, *depth, &mv, game.alpha_beta_score(), "context-reused-along-a-game", json!({"pool": pool, "start_fen": p.to_fen(), "moves_played": played.clone(), "ply": ply}), &cf);
                let rm = match cur.legal_moves().into_iter().find(|m| rkey(m) == ekey(&mv)) { Some(m) => m, None => break };
                if game.apply_chess_move(mv.clone()).is_err() { break; }
                game.board_mut().toggle_turn();
                played.push(cur.uci(&rm));
                cur = cur.make(&rm);
                ctx.count("game_plies_searched", 1);
            }
        }
    }
    ctx.count("search_cache_hits_observed", cf.hits.load(Ordering::Relaxed));
    ctx.count("search_cache_stores_observed", cf.stores.load(Ordering::Relaxed));
    ctx.count("cache_hits_served_across_depth_or_side_(CACHEFUNC)", cf.cross_identity_hits.load(Ordering::Relaxed));
    ctx.count("interior_nodes_checked_against_the_alpha_beta_bound_contract", cf.contract_checked.load(Ordering::Relaxed));
    let unsound = cf.contract_unsound.load(Ordering::Relaxed);
    ctx.count("unsound_interior_bounds_seen_(diagnostic)", unsound);
    // an unsound interior bound is a lead, not a verdict: search the positions on the way down to it as roots of
    // their own (brand-new context, one thread, as deep as they were from the horizon) and compare those answers
    let leads = std::mem::take(&mut *cf.leads.lock().unwrap());
    for chain in leads {
        for (pos, d) in chain.into_iter().rev().take(4) {
            if d == 0 || pos.legal_moves().is_empty() { continue; }
            let tp = mon::pool_with_session(1, None);
            let mut b = to_engine(&pos);
            let mut sc = SearchContext::new(d);
            if let Ok(Outcome { result: Ok(mv), score, .. }) = run_search(&mut b, &mut sc, &mut MoveGenerator::new(), &tp) {
                ctx.count("follow_up_searches_from_leads", 1);
                compare_search(ctx, ms, &pos, d, &mv, score, "fresh-context", json!({"pool": 1, "lead": "root taken from the path to an interior node whose stored bound was unsound"}), &CacheFunc::new());
            }
        }
    }
    if unsound > 0 { if let Some(f) = cf.first_unsound.lock().unwrap().clone() { println!("NOTE property=C08 (diagnostic, not a verdict) {}", f); ctx.note(&f); } }
}

pub fn c08(o: &Opts) -> i32 {
    let ctx = default_ctx("C08", o, 210.0, 900.0);
    let mut retro_cases: Vec<C08Case> = vec![];
    let q = ctx.quick();
    let ms = probe_mate_scores();
    let mut r = Rng::new(o.seed).fork(tag("c08"));
    let all = search_positions(o.seed, if q { 60 } else { 600 }, if q { 30 } else { 300 }, 32);
    let pos: Vec<Pos> = all.into_iter().map(|x| x.0).filter(quiet_enough).collect();
    let pools = [1usize, 2, 4, 8, 16];
    let mut cases: Vec<C08Case> = vec![];
    for p in pos.iter() {
        let big = p.piece_count() > 14;
        let maxd: usize = if q { if big { 2 } else { 3 } } else if big { 3 } else { 4 };
        let depth = 1 + r.below(maxd) as u8;
        match r.below(10) {
            0..=4 => cases.push(C08Case::Fresh { p: p.clone(), depth, pool: *r.pick(&pools) }),
            5..=6 => { let others = (0..3).map(|_| r.pick(&pos).clone()).collect(); cases.push(C08Case::Prewarmed { p: p.clone(), others, depth, pool: *r.pick(&pools) }); }
            _ => cases.push(C08Case::GameReuse { p: p.clone(), depth: depth.min(if q { 2 } else { 3 }).max(2), plies: 8 + r.below(if q { 8 } else { 22 }), pool: *r.pick(&pools) }),
        }
    }
    {
        let mut mr = Rng::new(o.seed).fork(tag("c08-mates"));
        let mut added = 0; let mut tries = 0;
        while added < if q { 8 } else { 60 } && tries < 3000 {
            tries += 1;
            let p = gen::random_ending(&mut mr);
            let n = p.legal_moves().len();
            if n < 2 || n > 30 || p.piece_count() > 5 { continue; }
            let mut leaves = 0u64;
            let v = reference_minimax(&p, 3, &ms, &mut leaves);
            if v.abs() < 16000 { continue; } // a forced mate within three plies
            added += 1;
            cases.insert(0, C08Case::GameReuse { p, depth: 3, plies: 6, pool: *mr.pick(&[1usize, 2, 8]) });
            ctx.count("game_reuse_cases_with_a_mate_inside_the_horizon", 1);
        }
    }
    {
        let mut tr = Rng::new(o.seed).fork(tag("c08-terminal-roots"));
        let mut roots = gen::roots_before_terminal(&mut tr, if q { 200_000 } else { 2_000_000 }, true, if q { 220 } else { 2500 });
        roots.extend(gen::roots_before_terminal(&mut tr, if q { 30_000 } else { 300_000 }, false, if q { 40 } else { 400 }));
        // stalemates of the side that is ahead: the side that is behind has a quiet saving move deep in the tree
        let frozen = gen::frozen_stronger_side_stalemates(&mut tr, if q { 2_000_000 } else { 12_000_000 });
        ctx.count("stalemates_of_the_materially_stronger_side_sampled", frozen.len() as u64);
        let deep = gen::roots_four_plies_before_a_quiet_finish(&frozen, &mut tr, if q { 1200 } else { 12000 });
        ctx.count("roots_four_plies_before_a_quiet_stalemating_move_of_the_weaker_side", deep.len() as u64);
        roots.extend(deep);
        let fr = gen::roots_before(frozen, &mut tr, if q { 300 } else { 3000 });
        ctx.count("roots_up_to_four_plies_before_a_stalemate_of_the_stronger_side", fr.len() as u64);
        roots.extend(fr);
        let mut n = 0;
        for (p, dist) in roots {
            let k = p.legal_moves().len();
            if k < 2 || k > 40 { continue; }
            n += 1;
            // mostly exactly as deep as the terminal position is away (it then sits on the horizon), sometimes one more
            let depth = if n % 6 == 0 { (dist + 1).min(4) } else { dist.max(1) };
            retro_cases.push(C08Case::Fresh { p, depth: if k > 24 { depth.min(3) } else { depth }, pool: *tr.pick(&[1usize, 2, 4, 8]) });
        }
        ctx.count("roots_shortly_before_a_stalemate_or_mate_of_a_side_with_pieces", n as u64);
    }
    {
        // forced mates several moves deep: the quicker mate must be preferred at every depth
        let mut dr = Rng::new(o.seed).fork(tag("c08-deep-mates"));
        let mut found = 0; let mut tries = 0;
        while found < if q { 10 } else { 40 } && tries < 600 {
            tries += 1;
            let mut p = Pos::empty();
            let strong = *dr.pick(&[Col::W, Col::B]);
            let two = tries % 2 == 0;
            let wk = if two { dr.below(64) as u8 } else { *dr.pick(&[0u8, 1, 2, 3, 8, 16, 24, 7, 15, 63, 62, 56, 57, 48, 55, 59]) };
            p.sq[wk as usize] = Some((strong.opp(), Pc::K));
            let mut free: Vec<u8> = (0..64u8).filter(|s| *s != wk).collect(); dr.shuffle(&mut free);
            p.sq[free[0] as usize] = Some((strong, Pc::K));
            p.sq[free[1] as usize] = Some((strong, *dr.pick(&[Pc::R, Pc::Q, Pc::R])));
            if two { p.sq[free[2] as usize] = Some((strong, *dr.pick(&[Pc::R, Pc::Q]))); }
            // with two heavy pieces the defender moves first: every reply loses, some quicker than others
            p.turn = if two { strong.opp() } else { *dr.pick(&[Col::W, Col::B]) };
            if !p.is_consistent() || p.legal_moves().len() < 2 { continue; }
            let mut n = 0u64;
            if reference_minimax(&p, if two { 4 } else { 3 }, &ms, &mut n).abs() < 16000 { continue; } // a forced mate well inside the horizon; the depth-6 search sees many slower mates as well
            found += 1;
            retro_cases.push(C08Case::Fresh { p, depth: 6, pool: *dr.pick(&[1usize, 4, 8]) });
            ctx.count("deep_searches_with_a_forced_mate_inside_the_horizon", 1);
        }
    }
    {
        // a context that met a promotion square at a shallow depth and meets it again one ply deeper, where a
        // different promotion piece is the only best move
        let mut ur = Rng::new(o.seed).fork(tag("c08-underpromotion"));
        let lines = underpromotion_lines(&mut ur, &ms, if q { 6 } else { 40 }, if q { 6000 } else { 60000 });
        ctx.count("lines_into_a_position_where_the_best_promotion_piece_changes_with_depth", lines.len() as u64);
        for (l0, l1) in lines { retro_cases.push(C08Case::Prewarmed { p: l1, others: vec![l0], depth: 3, pool: *ur.pick(&[1usize, 4]) }); }
    }
    { let mut pr = Rng::new(o.seed).fork(tag("c08-promotions")); for _ in 0..if q { 40 } else { 300 } { let p = gen::random_setup_profile(&mut pr, 3); if p.legal_moves().len() >= 2 && p.legal_moves().len() <= 30 && p.piece_count() <= 10 { cases.insert(0, C08Case::GameReuse { p, depth: 3, plies: 6, pool: *pr.pick(&[1usize, 4]) }); ctx.count("game_reuse_cases_from_promotion_ready_positions", 1); } } }
    // a game from the initial position, as the game loops play it
    cases.insert(0, C08Case::GameReuse { p: Pos::start(), depth: 2, plies: if q { 10 } else { 30 }, pool: 8 });
    cases.insert(1, C08Case::GameReuse { p: Pos::from_fen("r1bqkbnr/pppp1ppp/2n5/4p3/4P3/5N2/PPPP1PPP/RNBQKB1R w KQkq - 2 3").unwrap(), depth: 3, plies: if q { 6 } else { 24 }, pool: 16 });
    if let Some(path) = &o.replay {
        let v = load_replay(path);
        let depth = v["depth"].as_u64().unwrap_or(1) as u8;
        if let Some(sf) = v["start_fen"].as_str() { cases = vec![C08Case::GameReuse { p: Pos::from_fen(sf).unwrap(), depth, plies: v["ply"].as_u64().unwrap_or(0) as usize + 1, pool: v["pool"].as_u64().unwrap_or(1) as usize }]; }
        else if let Some(h) = v["context_history"].as_array() { cases = vec![C08Case::Prewarmed { p: Pos::from_fen(v["fen"].as_str().unwrap()).unwrap(), others: h.iter().map(|x| Pos::from_fen(x.as_str().unwrap()).unwrap()).collect(), depth, pool: 1 }]; }
        else { cases = vec![C08Case::Fresh { p: Pos::from_fen(v["fen"].as_str().unwrap()).unwrap(), depth, pool: v["pool"].as_u64().unwrap_or(1) as usize }]; }
    }
    // shares of the wall-clock budget at which the three phases stop (quick: the whole list of retro roots is searched)
    let share: (f64, f64, f64) = if q { (0.25, 0.72, 0.92) } else { (0.33, 0.6, 0.9) };
    // bulk phase: very many cheap searches (sparse, transposition- and tie-rich positions with few root
    // moves, so that the per-root-move generator construction does not dominate), brand-new context each
    if o.replay.is_none() {
        let mut bulk: Vec<C08Case> = vec![];
        let mut br = Rng::new(o.seed).fork(tag("c08-bulk"));
        let want = if q { 6000 } else { 60000 };
        let mut guard = 0;
        while bulk.len() < want && guard < want * 30 {
            guard += 1;
            let mut p = if br.chance(0.6) { gen::random_ending(&mut br) } else { gen::random_setup_profile(&mut br, 0) };
            // walk a few random plies so that the search tree is full of transpositions of earlier play
            for _ in 0..br.below(4) { let ms2 = p.legal_moves(); if ms2.is_empty() { break; } p = p.make(br.pick(&ms2)); }
            p.halfmove = 0;
            let n = p.legal_moves().len();
            if n < 2 || n > 14 || p.piece_count() > 9 { continue; }
            let depth = if n <= 7 && br.chance(0.5) { 4 } else { 3 };
            bulk.push(C08Case::Fresh { p, depth, pool: *br.pick(&[1usize, 1, 2, 3]) });
        }
        par::for_each(&bulk, par::threads(), |_i, c| { if ctx.budget_used() < share.0 { c08_one(&ctx, &ms, c); ctx.count("bulk_small_searches", 1); } },
            |_i, _c, msg| ctx.violation(&format!("c08:panic:{}", par::last_panic_location()), &format!("panic around a search: {}", msg), json!({})));
        par::for_each(&retro_cases, par::threads().min(12), |_i, c| { if ctx.budget_used() < share.1 { c08_one(&ctx, &ms, c); ctx.count("searches_from_roots_before_a_terminal_position", 1); } },
            |_i, _c, msg| ctx.violation(&format!("c08:panic:{}", par::last_panic_location()), &format!("panic around a search: {}", msg), json!({})));
    }
    par::for_each(&cases, 4, |_i, c| { if ctx.budget_used() < share.2 { c08_one(&ctx, &ms, c) } else { ctx.count("cases_skipped_for_time_budget", 1) } },
        |_i, _c, msg| ctx.violation(&format!("c08:panic:{}", par::last_panic_location()), &format!("panic around a search: {}", msg), json!({})));
    ctx.set_extra("mate_scores_read_black_box", json!({"white_mated_remaining_0": ms.white_mated[0], "black_mated_remaining_0": ms.black_mated[0]}));
    ctx.finish(ctx.counter("searches_compared"),
        "the search's reported score must equal plain minimax (no pruning, no cache) over the reference move generator with the engine's public static evaluation at the leaves (mate scores read black-box per loser colour and remaining depth, stalemate 0), and the returned move's child must have that value. Modes: brand-new context+generator; a context pre-used on three other positions; a Game whose context is reused along the successive searches of a game (half-move clock kept below 40-depth). Pools of 1-16 threads. distinct_nontrivial = distinct (position, depth, mode) with >= 2 legal moves",
        &["positions have half-move clock and repetition count far from any draw threshold", "which of several equal-valued moves is returned is free"],
        &[("searches_compared_fresh-context", 20), ("searches_compared_context-reused-along-a-game", 20), ("searches_compared_context-used-on-other-positions", 3), ("search_cache_hits_observed", 100)])
}

// ======================================================================================= C09

#[derive(Clone)]
struct C09Case { p: Pos, depth: u8, warm: Vec<Pos>, schedules: usize, id: usize, stress_only: bool }

fn build_context(depth: u8, warm: &[Pos]) -> (SearchContext, MoveGenerator) {
    let mut sc = SearchContext::new(depth);
    let mut g = MoveGenerator::new();
    let one = mon::pool_with_session(1, None);
    for w in warm { let mut b = to_engine(w); let _ = par::guarded(|| one.install(|| alpha_beta_search(&mut sc, &mut b, &mut g))); }
    (sc, g)
}

fn c09_one(ctx: &Ctx, c: &C09Case, seed: u64) {
    let p = &c.p;
    let total = p.legal_moves().len();
    // baseline: one thread, tasks in order, no scheduler
    let (mut sc0, mut g0) = build_context(c.depth, &c.warm);
    let one = mon::pool_with_session(1, None);
    let mut b0 = to_engine(p);
    let base = match par::guarded(|| one.install(|| alpha_beta_search(&mut sc0, &mut b0, &mut g0))) {
        Ok(Ok(m)) => (ekey(&m), sc0.last_score()),
        Ok(Err(_)) => { ctx.count("baseline_search_errors_(C07_business)", 1); return; }
        Err(msg) => { ctx.violation(&format!("c09:panic:{}", par::last_panic_location()), &format!("baseline search panicked on {}: {}", p.to_fen(), msg), json!({"fen": p.to_fen()})); return; }
    };
    ctx.count("baselines", 1);
    let mut rng = Rng::new(seed);
    let strategies = [Strategy::Random, Strategy::RunToCompletion, Strategy::Priorities, Strategy::PreemptionBounded, Strategy::Reverse, Strategy::RoundRobin];
    let pools = [2usize, 3, 4, 8, 16, 64];
    let mut conflicts: Vec<(u64, usize, usize)> = vec![];
    let mut rw_conflicts: Vec<(u64, usize, usize)> = vec![];
    let mut plan: Vec<(Strategy, usize, bool)> = vec![];
    for s in 0..c.schedules {
        let controlled = s % 4 != 3;
        plan.push((strategies[s % strategies.len()], if s == 0 { 1 } else { *rng.pick(&pools) }, controlled));
    }
    if c.stress_only { plan = vec![(Strategy::Random, 2, false), (Strategy::Random, 8, false), (Strategy::Random, 3, false)]; }
    let mut s = 0;
    while s < plan.len() {
        if ctx.out_of_budget() { break; }
        let (strategy, pool, controlled) = plan[s];
        s += 1;
        let (mut sc, mut g) = build_context(c.depth, &c.warm);
        let sseed = rng.next_u64();
        let sched = Scheduler::new(total, pool, strategy, sseed, vec![], false);
        let stress = Stress::new(sseed, 40);
        let sink: Arc<dyn SearchSink> = if controlled { sched.clone() } else { stress.clone() };
        let tids: Arc<Mutex<Vec<u32>>> = Arc::new(Mutex::new(vec![]));
        let tp = mon::pool_with_session_tids(pool, Some(sink), tids.clone());
        let mut b = to_engine(p);
        let st_src = if controlled { sched.clone() } else { stress.inner.clone() };
        // The search runs on its own thread. Progress = cache operations observed by the sink (logical steps, not time).
        // No progress for 45 s AND every worker of the pool blocked in five samples over five seconds = a stall (deadlock):
        // that is what the property forbids. No progress but workers running = slow, reported as inconclusive.
        let (tx, rx) = std::sync::mpsc::channel();
        let runner = std::thread::spawn(move || {
            let r = par::guarded(|| tp.install(|| alpha_beta_search(&mut sc, &mut b, &mut g)));
            let score = sc.last_score();
            let _ = tx.send((r, score));
            drop(tp);
        });
        let ops_now = |s: &Arc<Scheduler>| s.with_state(|st| st.writes + st.misses + st.own_hits + st.cross_task_hits + st.prewarmed_hits + st.decisions.len() as u64);
        let mut last_ops = ops_now(&st_src); let mut last_change = std::time::Instant::now();
        let mut outcome: Option<(Result<Result<ChessMove, SearchError>, String>, Option<i16>)> = None;
        let mut stalled: Option<String> = None;
        loop {
            match rx.recv_timeout(Duration::from_millis(500)) {
                Ok(x) => { outcome = Some(x); break; }
                Err(std::sync::mpsc::RecvTimeoutError::Disconnected) => break,
                Err(std::sync::mpsc::RecvTimeoutError::Timeout) => {
                    let o = ops_now(&st_src);
                    if o != last_ops { last_ops = o; last_change = std::time::Instant::now(); continue; }
                    if last_change.elapsed() > Duration::from_secs(45) {
                        let ids = tids.lock().unwrap().clone();
                        let mut all_blocked = true; let mut seen = vec![];
                        for _ in 0..5 { let stt = mon::thread_states(&ids); if stt.iter().any(|c| *c == 'R' || *c == 'D' || *c == '?') { all_blocked = false; } seen.push(stt.iter().collect::<String>()); std::thread::sleep(Duration::from_secs(1)); }
                        if ops_now(&st_src) != last_ops { last_change = std::time::Instant::now(); continue; }
                        if all_blocked { stalled = Some(format!("no cache operation for {} s and all {} workers blocked (thread states {:?})", last_change.elapsed().as_secs(), ids.len(), seen)); break; }
                        if last_change.elapsed() > Duration::from_secs(300) { stalled = Some(String::new()); break; }
                    }
                }
            }
        }
        if let Some(why) = stalled {
            sched.abort();
            std::mem::forget(runner); // the search never returned: leave its threads behind
            let replay = json!({"fen": p.to_fen(), "depth": c.depth, "context_history": c.warm.iter().map(|x| x.to_fen()).collect::<Vec<_>>(), "schedule": {"pool": pool, "strategy": format!("{:?}", strategy), "controlled": controlled, "seed": sseed}});
            if why.is_empty() || controlled { ctx.inconclusive(&format!("search on {} ({:?}, pool {}, controlled {}) made no progress for minutes but its workers were not all blocked, or it ran under the serialising scheduler", p.to_fen(), strategy, pool, controlled)); ctx.count("watchdog_fired", 1); }
            else { ctx.count("stalls_detected", 1); ctx.violation("c09:deadlock", &format!("depth-{} search on {} on a free-running pool of {} threads stopped making progress: {}", c.depth, p.to_fen(), pool, why), replay); }
            continue;
        }
        let _ = runner.join();
        let (res, final_score) = match outcome { Some(x) => x, None => { ctx.inconclusive("search thread ended without a result"); continue; } };
        let (hash, decisions, cross, prewarm_hits, late, rewrites, ops, confl) = st_src.with_state(|st| (st.trace_hash, st.decisions.clone(), st.cross_task_hits, st.prewarmed_hits, st.late_arrivals, st.rewrites_different, st.writes + st.misses + st.own_hits + st.cross_task_hits + st.prewarmed_hits, st.conflicts.clone()));
        let rw_confl = st_src.with_state(|st| st.rewrite_conflicts.clone());
        ctx.count(if controlled { "controlled_schedules_run" } else { "free_running_stress_runs" }, 1);
        ctx.count(&format!("runs_on_pool_of_{}", pool), 1);
        if controlled { ctx.count(&format!("runs_with_strategy_{}", format!("{:?}", strategy).split(|c| c == '(' || c == ' ').next().unwrap_or("")), 1); }
        if let Strategy::WriteThenRead { .. } = strategy { if st_src.with_state(|st| st.wtr_completed) { ctx.count("write_then_read_schedules_that_hit_their_target", 1); } }
        ctx.count("cache_operations_observed", ops);
        ctx.count("cross_task_cache_hits_observed", cross);
        ctx.count("prewarmed_cache_hits_observed", prewarm_hits);
        ctx.count("late_arrivals", late);
        ctx.count("keys_rewritten_with_a_different_value_(auxiliary)", rewrites);
        if cross + prewarm_hits > 0 { ctx.distinct(hash); }
        ctx.count("distinct_trace_candidates", 1);
        for x in rw_confl { if rw_conflicts.len() < 16 && !rw_conflicts.iter().any(|y| y.0 == x.0) { rw_conflicts.push(x); } }
        if conflicts.len() < 4 { for x in confl { if conflicts.len() < 4 && !conflicts.iter().any(|y| y.1 == x.1 && y.2 == x.2) { conflicts.push(x); } } }
        let replay = json!({"fen": p.to_fen(), "depth": c.depth, "context_history": c.warm.iter().map(|x| x.to_fen()).collect::<Vec<_>>(), "schedule": {"pool": pool, "strategy": format!("{:?}", strategy), "controlled": controlled, "seed": sseed, "decisions": decisions.iter().take(20000).collect::<Vec<_>>()}, "baseline": {"move": key_str(&base.0), "score": base.1}});
        match res {
            Err(msg) => ctx.violation(&format!("c09:panic:{}", par::last_panic_location()), &format!("search panicked under schedule {:?}/pool {} on {}: {}", strategy, pool, p.to_fen(), msg), replay),
            Ok(Err(_)) => ctx.count("search_errors_(C07_business)", 1),
            Ok(Ok(m)) => {
                let got = (ekey(&m), final_score);
                if got != base {
                    let mut r2 = replay; r2["observed"] = json!({"move": key_str(&got.0), "score": got.1});
                    ctx.violation(if c.warm.is_empty() { "c09:answer-depends-on-schedule:fresh-cache" } else { "c09:answer-depends-on-schedule:prewarmed-cache" },
                        &format!("depth-{} search on {} returns {} ({:?}) on one thread but {} ({:?}) under {:?} on a pool of {}", c.depth, p.to_fen(), key_str(&base.0), base.1, key_str(&got.0), got.1, strategy, pool), r2);
                }
                if ctx.sample_count() < 8 { ctx.sample(json!({"fen": p.to_fen(), "depth": c.depth, "pool": pool, "strategy": format!("{:?}", strategy), "controlled": controlled, "trace_hash": format!("{:016x}", hash), "decisions_prefix": decisions.iter().take(24).collect::<Vec<_>>(), "cache_ops": ops, "cross_task_hits": cross, "answer": key_str(&got.0), "score": got.1})); }
            }
        }
        // conflict-directed: for a key written by one task and read by another, force the writer first / last
        if s == plan.len() && !conflicts.is_empty() && plan.len() < c.schedules + 4 {
            for (_, w, _) in conflicts.clone().into_iter().take(2) { plan.push((Strategy::ConflictFirst(w), 8, true)); plan.push((Strategy::ConflictLast(w), 8, true)); }
            // and: the writer runs up to its first write of the shared key, then the reader runs until it has read it
            for (k, w, rd) in conflicts.clone().into_iter().take(3) { plan.push((Strategy::WriteThenRead { key: k, writer: w, reader: rd }, total.max(2), true)); }
            // keys a task stored two different values under while another task looks them up (none when entries are final)
            for (k, w, rd) in rw_conflicts.clone() { plan.push((Strategy::WriteThenRead { key: k, writer: w, reader: rd }, total.max(2), true)); }
            ctx.count("schedules_directed_at_a_rewritten_key_read_by_another_task", rw_conflicts.len() as u64);
            ctx.count("conflict_directed_schedules_planned", 4.min(conflicts.len() as u64 * 2) + 3.min(conflicts.len() as u64));
            conflicts.clear(); rw_conflicts.clear();
        }
    }
}

/// Small free-running workload for the ThreadSanitizer build (thorough tier): the sanitizer is the
/// oracle for data races; answers are still compared with the one-thread baseline.
fn c09_sanitizer_leg(o: &Opts) -> i32 {
    let mut r = Rng::new(o.seed).fork(tag("c09-tsan"));
    let all: Vec<Pos> = search_positions(o.seed, 6, 2, 20).into_iter().map(|x| x.0).filter(|p| p.legal_moves().len() >= 3 && p.legal_moves().len() <= 30).collect();
    let mut searches = 0; let mut diverged = 0;
    for i in 0..3 {
        let p = r.pick(&all).clone();
        let warm: Vec<Pos> = if i % 2 == 1 { vec![r.pick(&all).clone()] } else { vec![] };
        let (mut sc0, mut g0) = build_context(2, &warm);
        let one = mon::pool_with_session(1, None);
        let mut b0 = to_engine(&p);
        let base = match one.install(|| alpha_beta_search(&mut sc0, &mut b0, &mut g0)) { Ok(m) => (ekey(&m), sc0.last_score()), Err(_) => continue };
        for pool in [2usize, 4, 16] {
            let (mut sc, mut g) = build_context(2, &warm);
            let stress = Stress::new(r.next_u64(), 30);
            let tp = mon::pool_with_session(pool, Some(stress.clone() as Arc<dyn SearchSink>));
            let mut b = to_engine(&p);
            if let Ok(m) = tp.install(|| alpha_beta_search(&mut sc, &mut b, &mut g)) { searches += 1; if (ekey(&m), sc.last_score()) != base { diverged += 1; println!("SANITIZER-LEG divergence on {} pool {}", p.to_fen(), pool); } }
        }
    }
    println!("SANITIZER-LEG searches={} diverged={}", searches, diverged);
    if diverged > 0 { 1 } else { 0 }
}

pub fn c09(o: &Opts) -> i32 {
    if o.part.as_deref() == Some("sanitizer") { return c09_sanitizer_leg(o); }
    let ctx = default_ctx("C09", o, 150.0, 900.0);
    let q = ctx.quick();
    // result of the ThreadSanitizer leg, run by ./check before this process (thorough tier)
    if let Ok(n) = std::env::var("VERIF_TSAN_REPORTS") {
        let n: u64 = n.parse().unwrap_or(0);
        let searches: u64 = std::env::var("VERIF_TSAN_SEARCHES").ok().and_then(|s| s.parse().ok()).unwrap_or(0);
        ctx.count("tsan_searches_run", searches); ctx.count("tsan_reports", n);
        ctx.set_extra("thread_sanitizer", json!({"searches": searches, "reports": n, "log": std::env::var("VERIF_TSAN_LOG").unwrap_or_default()}));
        if n > 0 { ctx.violation("c09:thread-sanitizer-report", &format!("ThreadSanitizer reported {} data race(s) during {} parallel searches (log: {})", n, searches, std::env::var("VERIF_TSAN_LOG").unwrap_or_default()), json!({"log": std::env::var("VERIF_TSAN_LOG").unwrap_or_default()})); }
        else if searches == 0 { ctx.inconclusive("the ThreadSanitizer leg ran no search"); }
    }
    let mut r = Rng::new(o.seed).fork(tag("c09"));
    let all: Vec<Pos> = search_positions(o.seed, if q { 30 } else { 200 }, 10, 28).into_iter().map(|x| x.0).filter(|p| p.legal_moves().len() >= 3 && p.legal_moves().len() <= 48).collect();
    let mut cases = vec![];
    let n = if q { 8 } else { 60 };
    for i in 0..n {
        let mut p = r.pick(&all).clone();
        let mut warm: Vec<Pos> = vec![];
        if i % 2 == 1 {
            // the cache holds the earlier searches of the same game: the positions four and two plies before
            // the one searched now (their trees overlap with it at other remaining depths), plus an unrelated one
            let mut cur = p.clone();
            let mut ok = true;
            for step in 0..4 { let ms = cur.legal_moves(); if ms.is_empty() { ok = false; break; } if step % 2 == 0 { warm.push(cur.clone()); } cur = cur.make(r.pick(&ms)); }
            if ok && cur.legal_moves().len() >= 3 && cur.legal_moves().len() <= 48 { p = cur; } else { warm.clear(); }
            // ... and a position two plies further on (as when a game is replayed or analysed backwards)
            let mut fwd = p.clone();
            for _ in 0..2 { let ms = fwd.legal_moves(); if ms.is_empty() { break; } fwd = fwd.make(r.pick(&ms)); }
            if !fwd.legal_moves().is_empty() { warm.push(fwd); }
            warm.push(r.pick(&all).clone());
        }
        let big = p.piece_count() > 12;
        // a pre-warmed cache only overlaps with the new search from depth 3 on (the earlier searches then reach the
        // new root's children at another remaining depth), so warm cases always search to depth 3
        let depth = if !warm.is_empty() { 3 } else if q { if big { 2 } else { 3 } } else { 2 + r.below(if big { 2 } else { 3 }) as u8 };
        cases.push(C09Case { p, depth, warm, schedules: if q { 10 } else { 40 }, id: i, stress_only: false });
    }
    // positions with several equally quick forced mates inside the horizon: whichever root task finishes
    // first must not decide which of them is returned
    if o.replay.is_none() {
        let ms = probe_mate_scores();
        let mut mr = Rng::new(o.seed).fork(tag("c09-mates"));
        let want = if q { 5 } else { 30 };
        let mut found = 0; let mut tries = 0;
        while found < want && tries < 4000 {
            tries += 1;
            let mut p = Pos::empty();
            let strong = *mr.pick(&[Col::W, Col::B]);
            let set: &[Pc] = *mr.pick(&[&[Pc::R, Pc::R][..], &[Pc::Q, Pc::R][..], &[Pc::Q, Pc::Q][..], &[Pc::Q][..], &[Pc::R, Pc::R, Pc::N][..]]);
            let mut free: Vec<u8> = (0..64u8).collect(); mr.shuffle(&mut free);
            let weak_king = *mr.pick(&[0u8, 1, 2, 7, 8, 16, 56, 57, 63, 62, 55, 6, 15, 48]);
            p.sq[weak_king as usize] = Some((strong.opp(), Pc::K));
            let mut it = free.into_iter().filter(|s| *s != weak_king);
            p.sq[it.next().unwrap() as usize] = Some((strong, Pc::K));
            for pc in set { p.sq[it.next().unwrap() as usize] = Some((strong, *pc)); }
            p.turn = strong;
            if !p.is_consistent() { continue; }
            let legal = p.legal_moves();
            if legal.len() < 3 || legal.len() > 48 { continue; }
            let depth = if tries % 2 == 0 { 3u8 } else { 4u8 };
            let mut n = 0u64;
            let vals: Vec<i32> = legal.iter().map(|m| reference_minimax(&p.make(m), depth as u32 - 1, &ms, &mut n)).collect();
            let best = if strong == Col::W { *vals.iter().max().unwrap() } else { *vals.iter().min().unwrap() };
            if best.abs() < 16000 || vals.iter().filter(|v| **v == best).count() < 2 { continue; }
            found += 1;
            ctx.count("positions_with_several_equally_quick_mates", 1);
            cases.insert(found.min(cases.len()), C09Case { p, depth, warm: vec![], schedules: if q { 8 } else { 30 }, id: 1000 + found, stress_only: false });
        }
    }
    if o.replay.is_none() {
        let mut tr = Rng::new(o.seed).fork(tag("c09-deep"));
        let mut added = 0; let mut tries = 0;
        while added < if q { 30 } else { 120 } && tries < 8000 {
            tries += 1;
            let mut p = Pos::empty();
            let mut free: Vec<u8> = (0..64u8).collect(); tr.shuffle(&mut free);
            let mut it = free.into_iter();
            p.sq[it.next().unwrap() as usize] = Some((Col::W, Pc::K));
            p.sq[it.next().unwrap() as usize] = Some((Col::B, Pc::K));
            if tries % 2 == 0 {
                // pawn races: one free pawn each on different files (independent moves transpose: a, x, b = b, x, a)
                let wf = tr.below(8) as u8; let bf = (wf + 2 + tr.below(4) as u8) % 8;
                let (ws, bs) = ((1 + tr.below(4) as u8) * 8 + wf, (3 + tr.below(4) as u8) * 8 + bf);
                if p.sq[ws as usize].is_some() || p.sq[bs as usize].is_some() { continue; }
                p.sq[ws as usize] = Some((Col::W, Pc::P)); p.sq[bs as usize] = Some((Col::B, Pc::P));
            } else {
                for c in [Col::W, Col::B] { for _ in 0..1 + tr.below(2) { let s = it.by_ref().find(|s| (8..56).contains(s)).unwrap(); p.sq[s as usize] = Some((c, Pc::P)); } }
            }
            p.turn = *tr.pick(&[Col::W, Col::B]);
            if !p.is_consistent() { continue; }
            let n = p.legal_moves().len();
            if n < 3 || n > 9 { continue; }
            added += 1;
            ctx.count("tiny_endings_searched_to_depth_5", 1);
            cases.insert(added.min(cases.len()), C09Case { p, depth: 5, warm: vec![], schedules: if q { 5 } else { 16 }, id: 2000 + added, stress_only: false });
        }
    }
    // a few large searches (hundreds of thousands of cache entries) run free on real threads only: whatever the
    // engine does when its shared structures grow must neither change the answer nor stall
    if o.replay.is_none() {
        for (k, fen) in ["8/8/8/4k3/8/8/1Q6/K7 w - - 0 1", "8/8/3k4/8/8/8/6R1/K6R w - - 0 1", "4k3/8/8/8/8/8/4q3/K7 b - - 0 1"].iter().enumerate() {
            if q && k == 2 { continue; }
            if let Ok(p) = Pos::from_fen(fen) { cases.insert(1 + k, C09Case { p, depth: 5, warm: vec![], schedules: 3, id: 3000 + k, stress_only: true }); ctx.count("large_free_running_searches_planned", 1); }
        }
    }
    if let Some(path) = &o.replay {
        let v = load_replay(path);
        // first: enforce the recorded decision sequence exactly (pool >= number of root moves)
        if let (Some(fen), Some(dec)) = (v["fen"].as_str(), v["schedule"]["decisions"].as_array()) {
            if let Ok(p) = Pos::from_fen(fen) {
                let warm: Vec<Pos> = v["context_history"].as_array().map(|a| a.iter().filter_map(|x| x.as_str().and_then(|s| Pos::from_fen(s).ok())).collect()).unwrap_or_default();
                let depth = v["depth"].as_u64().unwrap_or(2) as u8;
                let decisions: Vec<u32> = dec.iter().filter_map(|x| x.as_u64().map(|y| y as u32)).collect();
                let total = p.legal_moves().len();
                let (mut sc0, mut g0) = build_context(depth, &warm);
                let one = mon::pool_with_session(1, None);
                let mut b0 = to_engine(&p);
                if let Ok(Ok(m0)) = par::guarded(|| one.install(|| alpha_beta_search(&mut sc0, &mut b0, &mut g0))) {
                    let base = (ekey(&m0), sc0.last_score());
                    let (mut sc, mut g) = build_context(depth, &warm);
                    let sched = Scheduler::new(total, total.max(2), Strategy::Replay, 1, decisions, false);
                    let tp = mon::pool_with_session(total.max(2), Some(sched.clone() as Arc<dyn SearchSink>));
                    let mut b = to_engine(&p);
                    if let Ok(Ok(m)) = par::guarded(|| tp.install(|| alpha_beta_search(&mut sc, &mut b, &mut g))) {
                        let got = (ekey(&m), sc.last_score());
                        let mismatch = sched.with_state(|st| st.replay_mismatch);
                        println!("replayed the recorded schedule{}: baseline {} ({:?}), replay {} ({:?})", if mismatch { " (a recorded decision was not available; nearest feasible schedule used)" } else { "" }, key_str(&base.0), base.1, key_str(&got.0), got.1);
                        ctx.count("recorded_schedules_replayed", 1);
                        if got != base { ctx.violation("c09:answer-depends-on-schedule:replayed", &format!("replaying the recorded schedule on {} gives {} ({:?}); the one-thread baseline gives {} ({:?})", p.to_fen(), key_str(&got.0), got.1, key_str(&base.0), base.1), v.clone()); }
                    }
                }
            }
        }
        let warm = v["context_history"].as_array().map(|a| a.iter().filter_map(|x| x.as_str().and_then(|s| Pos::from_fen(s).ok())).collect()).unwrap_or_default();
        cases = vec![C09Case { p: Pos::from_fen(v["fen"].as_str().unwrap_or("")).unwrap(), depth: v["depth"].as_u64().unwrap_or(2) as u8, warm, schedules: 24, id: 0, stress_only: false }];
    }
    par::for_each(&cases, 4, |i, c| c09_one(&ctx, c, o.seed ^ (i as u64 + 1) * 0x9E37), |_i, c, msg| ctx.violation(&format!("c09:panic:{}", par::last_panic_location()), &format!("panic around scheduling on {}: {}", c.p.to_fen(), msg), json!({"fen": c.p.to_fen()})));
    let traces = ctx.distinct_count();
    ctx.set_extra("distinct_interleavings_with_shared_cache_hits", json!(traces));
    ctx.finish(ctx.counter("controlled_schedules_run") + ctx.counter("free_running_stress_runs"),
        "for each (position, depth, initial cache contents: empty or pre-warmed by a fixed list of earlier one-thread searches) the answer (move, score) of a one-thread in-order run is the baseline; the same search is then run under a controlled scheduler that serialises the root-move tasks at every shared-cache read/write and chooses the next task by seeded random / run-to-completion / PCT-style priorities / preemption-bounded / reverse / round-robin strategies on pools of 1-64 threads, under conflict-directed schedules (writer of a cross-task key forced first / last; writer run up to its first store of a shared key, then the reader until it has looked that key up), and free-running with injected micro-sleeps; any different (move, score), panic or stall is a violation. distinct_nontrivial = distinct linearised cache-operation traces (hash) that contained at least one hit on an entry written by another task or by an earlier search",
        &["interleavings are explored at the granularity of shared-cache operations; 'every schedule' is sampled", "a watchdog stall (120 s without scheduler activity) is reported as inconclusive"],
        &[("controlled_schedules_run", if q { 20 } else { 300 }), ("free_running_stress_runs", 4), ("cross_task_cache_hits_observed", 10), ("baselines", 3), ("positions_with_several_equally_quick_mates", 2)])
}
