//! C02: a long-lived generator answers exactly like a brand-new one, whatever it served before.

use super::*;
use crate::bridge::*;
use crate::mon;
use crate::out::Local;
use crate::par;
use chess::alpha_beta_searcher::{alpha_beta_search, SearchContext};
use chess::board::Board;
use chess::board::color::Color;
use chess::move_generator::MoveGenerator;
use serde_json::json;

/// The engine's attack-map convention re-derived from the reference position (pawn diagonals
/// regardless of occupancy; other pieces' attacked squares minus squares holding own pieces).
/// Only a trigger for re-asking a brand-new generator, never a verdict by itself.
fn surrogate_attack_map(p: &Pos, by: Col) -> u64 {
    let mut m = 0u64;
    for s in 0..64u8 {
        if let Some((c, pc)) = p.sq[s as usize] {
            if c != by { continue; }
            let (f, r) = (file_of(s), rank_of(s));
            match pc {
                Pc::P => { let dir = if by == Col::W { 1 } else { -1 }; for df in [-1i8, 1] { if let Some(q) = sq_of(f + df, r + dir) { m |= 1 << q; } } }
                Pc::N | Pc::K => {
                    let offs: [(i8, i8); 8] = if pc == Pc::N { [(1, 2), (2, 1), (2, -1), (1, -2), (-1, -2), (-2, -1), (-2, 1), (-1, 2)] } else { [(1, 0), (1, 1), (0, 1), (-1, 1), (-1, 0), (-1, -1), (0, -1), (1, -1)] };
                    for (df, dr) in offs { if let Some(q) = sq_of(f + df, r + dr) { if p.sq[q as usize].map(|x| x.0) != Some(by) { m |= 1 << q; } } }
                }
                _ => {
                    let mut dirs: Vec<(i8, i8)> = vec![];
                    if pc != Pc::B { dirs.extend_from_slice(&[(1, 0), (-1, 0), (0, 1), (0, -1)]); }
                    if pc != Pc::R { dirs.extend_from_slice(&[(1, 1), (1, -1), (-1, 1), (-1, -1)]); }
                    for (df, dr) in dirs {
                        let (mut cf, mut cr) = (f + df, r + dr);
                        while let Some(q) = sq_of(cf, cr) {
                            match p.sq[q as usize] { None => m |= 1 << q, Some((oc, _)) => { if oc != by { m |= 1 << q; } break; } }
                            cf += df; cr += dr;
                        }
                    }
                }
            }
        }
    }
    m
}

struct Walker<'a> {
    ctx: &'a Ctx,
    g: MoveGenerator,
    l: Local,
    root: Pos,
    history: Vec<String>,
    nodes: u64,
    rng: Rng,
    sample_every: u64,
    annotated_every: u64,
    nodes_this_pass: u64,
    node_cap: u64,
}

impl<'a> Walker<'a> {
    fn query(&mut self, p: &Pos, b: &mut Board, path: &[Mv]) {
        self.nodes += 1;
        let turn = ecol(p.turn);
        let legal = p.legal_moves();
        let mut rk: Vec<MoveKey> = legal.iter().map(rkey).collect(); rk.sort();
        let ems = if self.annotated_every > 0 && self.nodes % self.annotated_every == 0 { self.l.inc("annotated_generation_queries"); self.g.generate_moves_and_lazily_update_chess_move_effects(b, turn) } else { self.g.generate_moves(b, turn) };
        let mut ek: Vec<MoveKey> = ems.iter().map(ekey).collect(); ek.sort();
        self.l.inc("move_queries");
        self.l.add("moves_compared", legal.len() as u64);
        let sampled = self.nodes % self.sample_every == 0;
        if ek != rk || sampled {
            // the deciding comparison: a brand-new generator on a board set up from scratch
            let mut fb = to_engine(p);
            let fresh = MoveGenerator::new().generate_moves(&mut fb, turn);
            let mut fk: Vec<MoveKey> = fresh.iter().map(ekey).collect(); fk.sort();
            self.l.inc("fresh_generator_confirmations");
            if fk != ek {
                let extra: Vec<String> = ek.iter().filter(|k| !fk.contains(k)).map(key_str).collect();
                let missing: Vec<String> = fk.iter().filter(|k| !ek.contains(k)).map(key_str).collect();
                let kind = ek.iter().filter(|k| !fk.contains(k)).chain(fk.iter().filter(|k| !ek.contains(k))).next().map(|k| ["std", "promo", "ep", "castle"][k.0 as usize]).unwrap_or("std");
                let what = if !extra.is_empty() { "extra" } else { "missing" };
                self.ctx.violation(&format!("c02:moves:{}:{}", what, kind),
                    &format!("long-lived generator answers {} differently from a brand-new one after {} earlier queries: extra {:?}, missing {:?}", p.to_fen(), self.nodes, extra, missing),
                    json!({"root_fen": self.root.to_fen(), "path": path_str(&self.root, path), "fen": p.to_fen(), "generator_history": self.history, "queries_before": self.nodes, "long_lived": ek.iter().map(key_str).collect::<Vec<_>>(), "fresh": fk.iter().map(key_str).collect::<Vec<_>>() }));
            } else if ek != rk { self.l.inc("both_generators_disagree_with_rules_(C01_business)"); }
        }
        for by in [Col::W, Col::B] {
            let got = self.g.get_attack_targets(b, ecol(by)).0;
            self.l.inc("attack_queries");
            if got != surrogate_attack_map(p, by) || sampled {
                let fb = to_engine(p);
                let fresh = MoveGenerator::new().get_attack_targets(&fb, ecol(by)).0;
                self.l.inc("fresh_attack_confirmations");
                if fresh != got {
                    self.ctx.violation("c02:attack-map",
                        &format!("long-lived generator reports attack map {:#018x} for {:?} in {}, a brand-new one {:#018x}", got, by, p.to_fen(), fresh),
                        json!({"root_fen": self.root.to_fen(), "path": path_str(&self.root, path), "fen": p.to_fen(), "generator_history": self.history, "colour": format!("{:?}", by)}));
                } else if got != surrogate_attack_map(p, by) { self.l.inc("surrogate_attack_map_off_(harness_only)"); }
            }
        }
        if p.ep.is_some() || p.rights != 15 { self.l.distinct.push(p.key_hash()); }
    }

    fn dfs(&mut self, p: &Pos, b: &mut Board, depth: u32, path: &mut Vec<Mv>, shuffle: bool) {
        self.query(p, b, path);
        if depth == 0 || self.ctx.out_of_budget() || self.nodes_this_pass >= self.node_cap { return; }
        self.nodes_this_pass += 1;
        let mut ms = p.legal_moves();
        if shuffle { self.rng.shuffle(&mut ms); }
        for m in ms {
            let em = engine_move(&m, p.turn);
            if em.apply(b).is_err() { self.l.inc("apply_failed_(C03_business)"); continue; }
            b.toggle_turn();
            path.push(m);
            self.dfs(&p.make(&m), b, depth - 1, path, shuffle);
            path.pop();
            b.toggle_turn();
            em.undo(b).ok();
        }
    }
}

#[derive(Clone)]
enum Unit { Walk { root: Pos, depth: u32, passes: u32, label: String }, Games { seed: u64, n: usize }, AfterSearch { root: Pos }, ReturnTrips { roots: Vec<Pos>, seed: u64 } }

fn run_unit(ctx: &Ctx, u: &Unit, seed: u64) {
    let mut w = Walker { ctx, g: MoveGenerator::new(), l: Local::default(), root: Pos::start(), history: vec![], nodes: 0, rng: Rng::new(seed), sample_every: 1500, annotated_every: 7, nodes_this_pass: 0, node_cap: 260_000 };
    match u {
        Unit::Walk { root, depth, passes, label } => {
            w.root = root.clone();
            for pass in 0..*passes {
                w.history.push(format!("pass {}: {} walk of depth {} from {}", pass, if pass == 0 { "ordered" } else { "shuffled" }, depth, label));
                let mut b = to_engine(root);
                let mut path = vec![];
                w.nodes_this_pass = 0;
                w.node_cap = if *depth == 4 { 260_000 } else { 60_000 };
                w.dfs(root, &mut b, *depth, &mut path, pass > 0);
                w.l.inc("walk_passes");
                w.l.flush(ctx);
                if ctx.out_of_budget() { break; }
            }
        }
        Unit::Games { seed, n } => {
            let mut r = Rng::new(*seed);
            for gi in 0..*n {
                let root = if gi % 3 == 0 { Pos::start() } else { gen::random_setup(&mut r) };
                let policy = gen::POLICIES[gi % gen::POLICIES.len()];
                let path = gen::random_game(&root, &mut r, policy, 200);
                w.root = root.clone();
                w.history.push(format!("game {} ({:?}, {} plies) with undo detours from {}", gi, policy, path.len(), root.to_fen()));
                if w.history.len() > 40 { w.history.remove(0); }
                let mut b = to_engine(&root);
                let mut p = root.clone();
                let mut stack: Vec<(Pos, chess::chess_move::chess_move::ChessMove)> = vec![];
                for (i, m) in path.iter().enumerate() {
                    w.query(&p, &mut b, &path[..i]);
                    // detour: look at a sibling line of depth 2, then come back
                    if i % 9 == 4 { let mut pp = vec![]; pp.extend_from_slice(&path[..i]); w.dfs(&p, &mut b, 2, &mut pp, true); }
                    let em = engine_move(m, p.turn);
                    if em.apply(&mut b).is_err() { break; }
                    b.toggle_turn();
                    stack.push((p.clone(), em));
                    p = p.make(m);
                    if ctx.out_of_budget() { break; }
                }
                // unwind completely, re-querying on the way back (now served from the cache)
                let mut k = path.len().min(stack.len());
                while let Some((prev, em)) = stack.pop() {
                    b.toggle_turn(); em.undo(&mut b).ok(); k -= 1;
                    if k % 2 == 0 { w.query(&prev, &mut b, &path[..k]); }
                }
                w.l.inc("games_dragged");
                w.l.flush(ctx);
                if ctx.out_of_budget() { break; }
            }
        }
        Unit::ReturnTrips { roots, seed } => {
            // out-and-back histories: a piece of each side leaves and returns, so the placement recurs with the
            // same side to move but (possibly) fewer castling rights and without the en-passant target
            let mut r = Rng::new(*seed);
            for root in roots {
                w.root = root.clone();
                w.history.push(format!("return trips from {}", root.to_fen()));
                if w.history.len() > 30 { w.history.remove(0); }
                let mut b = to_engine(root);
                w.query(root, &mut b, &[]);
                let reversible = |p: &Pos| -> Vec<Mv> { p.legal_moves().into_iter().filter(|m| m.piece != Pc::P && m.captured.is_none() && m.kind == Kind::Quiet).collect() };
                let mut m1s = reversible(root); r.shuffle(&mut m1s);
                for m1 in m1s.into_iter().take(10) {
                    let p1 = root.make(&m1);
                    let mut m2s = reversible(&p1); r.shuffle(&mut m2s);
                    for m2 in m2s.into_iter().take(4) {
                        let p2 = p1.make(&m2);
                        let back1 = p2.legal_moves().into_iter().find(|m| m.from == m1.to && m.to == m1.from && m.kind == Kind::Quiet);
                        let back1 = match back1 { Some(m) => m, None => continue };
                        let p3 = p2.make(&back1);
                        let back2 = p3.legal_moves().into_iter().find(|m| m.from == m2.to && m.to == m2.from && m.kind == Kind::Quiet);
                        let back2 = match back2 { Some(m) => m, None => continue };
                        let p4 = p3.make(&back2);
                        let path = [m1, m2, back1, back2];
                        let poss = [p1.clone(), p2, p3, p4];
                        let mut ems = vec![];
                        let mut cur = root.clone();
                        let mut ok = true;
                        for (i, m) in path.iter().enumerate() {
                            let em = engine_move(m, cur.turn);
                            if em.apply(&mut b).is_err() { ok = false; break; }
                            b.toggle_turn(); ems.push(em);
                            cur = poss[i].clone();
                            w.query(&cur, &mut b, &path[..=i]);
                        }
                        if ok { w.l.inc("return_trips"); if cur.rights != root.rights || cur.ep != root.ep { w.l.inc("return_trips_ending_in_a_look_alike_of_the_root"); } }
                        while let Some(em) = ems.pop() { b.toggle_turn(); em.undo(&mut b).ok(); }
                        w.query(root, &mut b, &[]);
                    }
                    if ctx.out_of_budget() { break; }
                }
                w.l.flush(ctx);
                if ctx.out_of_budget() { break; }
            }
        }
        Unit::AfterSearch { root } => {
            // the generator first serves as the root generator of a search and of a position count
            w.root = root.clone();
            let mut b = to_engine(root);
            let mut sc = SearchContext::new(2);
            let _ = par::guarded(|| alpha_beta_search(&mut sc, &mut b, &mut w.g));
            let side = if root.turn == Col::W { Color::White } else { Color::Black };
            let _ = par::guarded(|| w.g.count_positions(1, &mut b, side));
            w.history.push(format!("root generator of alpha_beta_search(depth 2) and count_positions(1) on {}", root.to_fen()));
            let mut path = vec![];
            w.dfs(root, &mut b, 2, &mut path, false);
            w.l.inc("search_then_query_histories");
        }
    }
    w.l.add("nodes_queried", 0);
    w.l.flush(ctx);
}

pub fn c02(o: &Opts) -> i32 {
    let ctx = default_ctx("C02", o, 80.0, 700.0);
    let q = ctx.quick();
    let mut units: Vec<Unit> = vec![];
    units.push(Unit::Walk { root: Pos::start(), depth: 4, passes: 2, label: "the initial position".into() });
    let corpus = gen::corpus();
    let mut r = Rng::new(o.seed).fork(tag("c02"));
    let mut idx: Vec<usize> = (0..corpus.len()).collect(); r.shuffle(&mut idx);
    // kiwipete & friends first (dense in ep / castling transpositions)
    for i in 0..6.min(corpus.len()) { units.push(Unit::Walk { root: corpus[i].0.clone(), depth: if q { 2 } else { 3 }, passes: 2, label: corpus[i].1.clone() }); }
    for &i in idx.iter().take(if q { 24 } else { corpus.len() }) { if i >= 6 { units.push(Unit::Walk { root: corpus[i].0.clone(), depth: 3, passes: 2, label: corpus[i].1.clone() }); } }
    // deeper exhaustive histories on sparse pawn positions (double steps, en-passant chances and their transpositions)
    for (p, t) in corpus.iter() { if p.piece_count() <= 6 && p.sq.iter().any(|x| matches!(x, Some((_, Pc::P)))) && (!q || units.len() < 60) { units.push(Unit::Walk { root: p.clone(), depth: 5, passes: 2, label: format!("{} (sparse, depth 5)", t) }); } }
    for k in 0..if q { 14 } else { 120 } { let p = gen::ep_rich_sparse(&mut r); units.insert(2 + k.min(units.len() - 2), Unit::Walk { root: p, depth: 5, passes: 2, label: "en-passant-rich sparse set-up (depth 5)".into() }); }
    for k in 0..if q { 6 } else { 40 } { units.push(Unit::Games { seed: o.seed.wrapping_mul(1000).wrapping_add(k), n: if q { 6 } else { 20 } }); }
    for &i in idx.iter().take(if q { 6 } else { 40 }) { units.push(Unit::AfterSearch { root: corpus[i].0.clone() }); }
    // very wide positions (more than 64 moves: several queens), queried twice on the same generator
    for (p, t) in corpus.iter() { if p.legal_moves().len() > 64 { units.insert(1, Unit::Walk { root: p.clone(), depth: 1, passes: 3, label: format!("{} (wide)", t) }); } }
    for _ in 0..if q { 3 } else { 30 } { let p = gen::random_setup_profile(&mut r, 4); if p.legal_moves().len() > 64 { units.insert(1, Unit::Walk { root: p, depth: 1, passes: 3, label: "material-extreme set-up (wide)".into() }); } }
    // return trips from every corpus position that has castling rights or an ep target, and from castle-focused set-ups
    let mut rich: Vec<Pos> = corpus.iter().map(|x| x.0.clone()).filter(|p| p.rights != 0 || p.ep.is_some()).collect();
    for _ in 0..if q { 120 } else { 1500 } { let prof = *r.pick(&[5usize, 5, 1]); let p = gen::random_setup_profile(&mut r, prof); if p.rights != 0 || p.ep.is_some() { rich.push(p); } }
    r.shuffle(&mut rich);
    for (k, chunk) in rich.chunks(12).enumerate() { units.insert(1 + k.min(units.len() - 1), Unit::ReturnTrips { roots: chunk.to_vec(), seed: o.seed ^ (k as u64) << 9 }); }
    if let Some(path) = &o.replay {
        let v = load_replay(path);
        let case = case_from_replay(&v);
        // re-create the history shape: walk from the recorded root deep enough to contain the path, two passes
        let depth = (case.path.len() as u32).max(1).min(4);
        units = vec![Unit::Walk { root: case.root.clone(), depth, passes: 2, label: "replay root".into() }];
    }
    let seed = o.seed;
    par::for_each(&units, par::threads().min(8), |i, u| run_unit(&ctx, u, seed ^ (i as u64) << 20), |_i, _u, msg| {
        ctx.violation(&format!("c02:panic:{}", par::last_panic_location()), &format!("engine panicked: {}", msg), json!({}));
    });
    mon::put_counters(&ctx);
    ctx.sample(json!({"history": "depth-4 walk from the initial position twice on one generator (second pass in shuffled order, served from the cache)", "contains": "1.a4 h6 2.a5 b5 (ep b6) and 1.a4 b5 2.a5 h6 (no ep): same placement, different en-passant possibility"}));
    ctx.sample(json!({"history": "seeded games with undo detours and sibling look-ahead, re-queried while unwinding"}));
    ctx.finish(ctx.counter("move_queries") + ctx.counter("attack_queries"),
        "one long-lived generator per history is dragged through exhaustive walks (twice: ordered, then shuffled so the second pass is served from the caches), games with undo detours, annotated generation, and use as root generator of a search and a position count; every answer (move set, both attack maps) is compared with the reference rules / a re-derived attack map and, on any difference and on every 1500th query, with a brand-new generator on a board set up from scratch - only long-lived != brand-new is a violation. distinct_nontrivial = distinct queried positions with an ep target or reduced castling rights (the collision candidates)",
        &["hook counters show that the cache-hit path really served the queries"],
        &[("move_cache_hits", 10_000), ("attack_cache_hits", 1_000), ("fresh_generator_confirmations", 50), ("walk_passes", 4), ("return_trips_ending_in_a_look_alike_of_the_root", 200)])
}
