//! C05 (position key is a pure function of the position) and C11 (attack geometry tables),
//! each for one build-time draw of the random tables; `./check` loops over forced re-draws
//! and merges the per-draw evidence.

use super::*;
use crate::bridge::*;
use crate::out::Local;
use crate::par;
use chess::board::castle_rights_bitmask::ALL_CASTLE_RIGHTS;
use chess::board::color::Color;
use chess::board::piece::Piece;
use chess::board::Board;
use chess::move_generator::MoveGenerator;
use serde_json::json;
use std::collections::HashMap;
use std::sync::Mutex;

pub struct Constants { pub piece: [[[u64; 64]; 6]; 2], pub rights: [u64; 16], pub ep: [u64; 64] }

const PCS: [Pc; 6] = [Pc::P, Pc::N, Pc::B, Pc::R, Pc::Q, Pc::K];

/// Read every key constant black-box from single-feature boards.
pub fn read_constants() -> Constants {
    let mut c = Constants { piece: [[[0; 64]; 6]; 2], rights: [0; 16], ep: [0; 64] };
    for (ci, col) in [Col::W, Col::B].iter().enumerate() { for (pi, pc) in PCS.iter().enumerate() { for s in 0..64u8 {
        let mut b = Board::new(); b.put(bb(s), epc(*pc), ecol(*col)).unwrap();
        c.piece[ci][pi][s as usize] = b.current_position_hash();
    } } }
    for r in 0..16u8 { let mut b = Board::new(); let lost = ALL_CASTLE_RIGHTS & !engine_rights(r); if lost != 0 { b.lose_castle_rights(lost); } c.rights[r as usize] = b.current_position_hash(); }
    for s in 0..64u8 { let mut b = Board::new(); b.push_en_passant_target(bb(s)); c.ep[s as usize] = b.current_position_hash(); }
    c
}

impl Constants {
    pub fn compose(&self, p: &Pos) -> u64 {
        let mut h = 0u64;
        for s in 0..64 { if let Some((c, pc)) = p.sq[s] { h ^= self.piece[if c == Col::W { 0 } else { 1 }][pc as usize][s]; } }
        h ^= self.rights[p.rights as usize];
        if let Some(e) = p.ep { h ^= self.ep[e as usize]; }
        h
    }
    pub fn fingerprint(&self) -> u64 {
        let mut h = 0xcbf2_9ce4_8422_2325u64;
        for x in self.piece[0][0].iter().chain(self.rights.iter()).chain(self.ep.iter()) { h ^= *x; h = h.wrapping_mul(0x100_0000_01B3); }
        h
    }
    fn classify(&self, delta: u64) -> &'static str {
        if self.ep.iter().any(|x| *x == delta) { return "stale-en-passant-term"; }
        for a in 0..64 { for b in 0..a { if self.ep[a] ^ self.ep[b] == delta { return "stale-en-passant-term"; } } }
        for ci in 0..2 { for pi in 0..6 { if self.piece[ci][pi].iter().any(|x| *x == delta) { return "stale-piece-term"; } } }
        for a in 0..16 { for b in 0..16 { if a != b && self.rights[a] ^ self.rights[b] == delta { return "stale-rights-term"; } } }
        "other"
    }
}

fn check_constants(ctx: &Ctx, k: &Constants) {
    let mut n = 0u64;
    let mut seen: HashMap<u64, String> = HashMap::new();
    for ci in 0..2 { for pi in 0..6 { for s in 0..64 {
        let name = format!("{} {:?} on {}", if ci == 0 { "white" } else { "black" }, PCS[pi], sq_name(s as u8));
        let v = k.piece[ci][pi][s]; n += 1;
        if v == 0 { ctx.violation("c05:constant-zero:piece", &format!("the key constant of {} is zero", name), json!({"constant": name})); }
        if let Some(prev) = seen.insert(v, name.clone()) { ctx.violation("c05:constant-collision:piece", &format!("{} and {} have the same key constant {:#x}", prev, name, v), json!({"constants": [prev, name]})); }
    } } }
    let mut seen: HashMap<u64, u8> = HashMap::new();
    for r in 0..16u8 {
        let v = k.rights[r as usize]; n += 1;
        if r != 15 && v == 0 { ctx.violation("c05:constant-zero:rights", &format!("boards with rights {:04b} and with all rights have equal keys", r), json!({"rights": r})); }
        if let Some(prev) = seen.insert(v, r) { ctx.violation("c05:constant-collision:rights", &format!("rights sets {:04b} and {:04b} contribute the same key", prev, r), json!({"rights": [prev, r]})); }
    }
    let mut seen: HashMap<u64, u8> = HashMap::new();
    for s in (16..24u8).chain(40..48u8) {
        let v = k.ep[s as usize]; n += 1;
        if v == 0 { ctx.violation("c05:constant-zero:ep", &format!("en-passant target {} contributes nothing to the key", sq_name(s)), json!({"square": sq_name(s)})); }
        if let Some(prev) = seen.insert(v, s) { ctx.violation("c05:constant-collision:ep", &format!("en-passant targets {} and {} contribute the same key", sq_name(prev), sq_name(s)), json!({"squares": [sq_name(prev), sq_name(s)]})); }
    }
    // across families as well: equal constants of different kinds make whole positions collide systematically
    let mut all_named: HashMap<u64, String> = HashMap::new();
    for ci in 0..2 { for pi in 0..6 { for s in 0..64 { all_named.insert(k.piece[ci][pi][s], format!("{} {:?} on {}", if ci == 0 { "white" } else { "black" }, PCS[pi], sq_name(s as u8))); } } }
    for r in 0..15u8 { if let Some(prev) = all_named.insert(k.rights[r as usize], format!("rights {:04b} (relative to all rights)", r)) { ctx.violation("c05:constant-collision:across-kinds", &format!("the key contribution of rights {:04b} equals the constant of {}", r, prev), json!({"a": prev, "rights": r})); } }
    for s in (16..24u8).chain(40..48u8) { if let Some(prev) = all_named.insert(k.ep[s as usize], format!("ep target {}", sq_name(s))) { ctx.violation("c05:constant-collision:across-kinds", &format!("the constant of en-passant target {} equals the constant of {}", sq_name(s), prev), json!({"a": prev, "ep": sq_name(s)})); } }
    // top halves must not be degenerate (e.g. a table generated as 32-bit numbers)
    let all: Vec<u64> = k.piece.iter().flatten().flatten().copied().chain(k.ep.iter().copied()).collect();
    let small = all.iter().filter(|v| **v >> 32 == 0).count();
    if small > 8 { ctx.violation("c05:constants-not-64-bit", &format!("{} of {} key constants have an all-zero upper half", small, all.len()), json!({})); }
    ctx.count("constants_read", n);
    let other_ep: Vec<String> = (0..64u8).filter(|s| !(16..24).contains(s) && !(40..48).contains(s) && k.ep[*s as usize] == 0).map(sq_name).collect();
    if !other_ep.is_empty() { ctx.note(&format!("ep constants that are zero on squares no double step can produce (reported, not judged): {:?}", other_ep)); }
}

struct Shared<'a> { ctx: &'a Ctx, k: &'a Constants, first: Vec<Mutex<HashMap<PosKey, (u64, String)>>> }

impl<'a> Shared<'a> {
    fn visit(&self, l: &mut Local, p: &Pos, b: &Board, history: &dyn Fn() -> String, rng: &mut Rng, nth: u64) {
        let h = b.current_position_hash();
        let want = self.k.compose(p);
        l.inc("boards_checked_against_composition");
        if h != want {
            let class = self.k.classify(h ^ want);
            self.ctx.violation(&format!("c05:key-not-composition:{}", class),
                &format!("key {:#018x} of {} differs from the XOR of its components' constants {:#018x} ({}) after history {}", h, p.to_fen(), want, class, history()),
                json!({"fen": p.to_fen(), "history": history(), "key": format!("{:#018x}", h), "composition": format!("{:#018x}", want)}));
        }
        let key = p.key_noturn();
        let shard = (key[0] as usize ^ key[7] as usize ^ key[20] as usize) % self.first.len();
        let mut m = self.first[shard].lock().unwrap();
        match m.get(&key) {
            None => { if m.len() < 60_000 { m.insert(key, (h, history())); } }
            Some((h0, hist0)) => {
                l.inc("positions_reached_by_a_second_history");
                l.distinct.push(hash_bytes(&key));
                if *h0 != h {
                    let class = self.k.classify(h ^ h0);
                    self.ctx.violation(&format!("c05:history-dependent-key:{}", class),
                        &format!("two histories reach the same placement/rights/ep ({}) with different keys: [{}] gives {:#018x}, [{}] gives {:#018x}", p.to_fen(), hist0, h0, history(), h),
                        json!({"fen": p.to_fen(), "history_a": hist0, "history_b": history()}));
                }
            }
        }
        drop(m);
        if nth % 16 == 0 {
            let twin = to_engine_shuffled(p, rng);
            l.inc("boards_compared_with_from_scratch_twin");
            l.distinct.push(hash_bytes(&key) ^ 1);
            if twin.current_position_hash() != h {
                let class = self.k.classify(h ^ twin.current_position_hash());
                self.ctx.violation(&format!("c05:history-vs-setup:{}", class),
                    &format!("{} reached by [{}] has key {:#018x}; the same position built from scratch has {:#018x}", p.to_fen(), history(), h, twin.current_position_hash()),
                    json!({"fen": p.to_fen(), "history": history()}));
            }
        }
    }
}

fn c05_walk(sh: &Shared, root: &Pos, depth: u32, seed: u64, detours: bool) {
    let mut l = Local::default();
    let mut rng = Rng::new(seed);
    // the initial position comes from the engine's own constructors every other time (directly, or through a Game)
    let mut b = if *root == Pos::start() && seed % 2 == 0 {
        l.inc("walks_from_the_engine's_own_starting_position_constructor");
        if seed % 4 == 0 { Board::starting_position() } else { chess::game::game::Game::new(0).board().clone() }
    } else { to_engine(root) };
    let mut n = 0u64;
    fn rec(sh: &Shared, l: &mut Local, root: &Pos, p: &Pos, b: &mut Board, depth: u32, path: &mut Vec<Mv>, rng: &mut Rng, n: &mut u64, detours: bool) {
        *n += 1;
        let hist = || format!("{} + {}", root.to_fen(), path_str(root, path).join(" "));
        sh.visit(l, p, b, &hist, rng, *n);
        if depth == 0 || sh.ctx.out_of_budget() { return; }
        let mut ms = p.legal_moves();
        if detours { rng.shuffle(&mut ms); }
        for m in ms {
            let em = engine_move(&m, p.turn);
            if em.apply(b).is_err() { l.inc("apply_failed_(C03_business)"); continue; }
            b.toggle_turn(); path.push(m);
            rec(sh, l, root, &p.make(&m), b, depth - 1, path, rng, n, detours);
            path.pop(); b.toggle_turn();
            if em.undo(b).is_err() { l.inc("undo_failed_(C04_business)"); }
        }
    }
    let mut path = vec![];
    rec(sh, &mut l, root, root, &mut b, depth, &mut path, &mut rng, &mut n, detours);
    l.add("walk_nodes", n);
    l.flush(sh.ctx);
}

fn c05_game(sh: &Shared, seed: u64) {
    let mut l = Local::default();
    let mut rng = Rng::new(seed);
    let root = if seed % 3 == 0 { Pos::start() } else { gen::random_setup(&mut rng) };
    let policy = gen::POLICIES[(seed % 5) as usize];
    let path = gen::random_game(&root, &mut rng, policy, 160);
    let mut b = to_engine(&root);
    let mut p = root.clone();
    let mut undo: Vec<(Pos, chess::chess_move::chess_move::ChessMove)> = vec![];
    let desc = |i: usize| format!("{} + first {} plies of a seeded {:?} game (seed {}) with make/undo detours", root.to_fen(), i, policy, seed);
    for (i, m) in path.iter().enumerate() {
        sh.visit(&mut l, &p, &b, &|| desc(i), &mut rng, i as u64);
        let em = engine_move(m, p.turn);
        if em.apply(&mut b).is_err() { break; }
        b.toggle_turn(); undo.push((p.clone(), em)); p = p.make(m);
        // detour: walk forward 3, undo 2, take another branch, come back
        if i % 11 == 5 && undo.len() >= 2 {
            let (p1, e1) = undo.pop().unwrap(); b.toggle_turn(); e1.undo(&mut b).ok();
            let (p0, e0) = undo.pop().unwrap(); b.toggle_turn(); e0.undo(&mut b).ok();
            sh.visit(&mut l, &p0, &b, &|| format!("{} then 2 undone", desc(i + 1)), &mut rng, 0);
            e0.apply(&mut b).ok(); b.toggle_turn(); undo.push((p0, e0));
            sh.visit(&mut l, &p1, &b, &|| format!("{} then 2 undone, 1 remade", desc(i + 1)), &mut rng, 0);
            e1.apply(&mut b).ok(); b.toggle_turn(); undo.push((p1, e1));
            sh.visit(&mut l, &p, &b, &|| format!("{} after an undo/redo detour", desc(i + 1)), &mut rng, 0);
            l.inc("undo_redo_detours");
        }
        if sh.ctx.out_of_budget() { break; }
    }
    l.inc("games");
    l.flush(sh.ctx);
}

pub fn c05(o: &Opts) -> i32 {
    let ctx = default_ctx("C05", o, 25.0, 60.0);
    let k = read_constants();
    ctx.set_extra("draw_fingerprint", json!(format!("{:016x}", k.fingerprint())));
    check_constants(&ctx, &k);
    let sh = Shared { ctx: &ctx, k: &k, first: (0..64).map(|_| Mutex::new(HashMap::new())).collect() };
    #[derive(Clone)]
    enum U { Walk(Pos, u32, bool), Game(u64), Setups(u64, usize) }
    let q = ctx.quick();
    let mut units = vec![U::Walk(Pos::start(), 4, false), U::Walk(Pos::start(), 4, true), U::Walk(Pos::start(), 3, true), U::Walk(Pos::start(), 3, false)];
    let corpus = gen::corpus();
    for (i, (p, _)) in corpus.iter().enumerate() { if i < 12 || i % (if q { 6 } else { 2 }) == 0 { units.push(U::Walk(p.clone(), if i < 12 { 3 } else { 2 }, i % 2 == 1)); } }
    // en-passant-rich sparse set-ups to depth 5: every order of double steps, advances and king tempi
    { let mut er = Rng::new(o.seed).fork(tag("c05-ep")); for i in 0..if q { 10 } else { 40 } { units.push(U::Walk(gen::ep_rich_sparse(&mut er), 5, i % 2 == 1)); } }
    // transposition-rich K+N endings
    units.push(U::Walk(Pos::from_fen("8/8/4k3/3Nn3/3nN3/4K3/8/8 w - - 0 1").unwrap(), 3, true));
    for g in 0..if q { 200 } else { 600 } { units.push(U::Game(o.seed.wrapping_mul(7919).wrapping_add(g))); }
    for s in 0..16 { units.push(U::Setups(o.seed.wrapping_mul(104729).wrapping_add(s), if q { 10000 } else { 40000 })); }
    par::for_each(&units, par::threads(), |i, u| match u {
        U::Walk(p, d, detours) => c05_walk(&sh, p, *d, (o.seed ^ (i as u64) << 8) & !3 | (i as u64 & 3), *detours),
        U::Game(s) => c05_game(&sh, *s),
        U::Setups(s, n) => {
            let mut l = Local::default(); let mut r = Rng::new(*s);
            for j in 0..*n {
                let p = gen::random_setup(&mut r);
                let b = to_engine(&p);
                sh.visit(&mut l, &p, &b, &|| "direct set-up in square order".to_string(), &mut r, 0);
                l.inc("random_setups");
                if j % 64 == 0 && ctx.out_of_budget() { break; }
            }
            l.flush(&ctx);
        }
    }, |_i, _u, msg| ctx.violation(&format!("c05:panic:{}", par::last_panic_location()), &format!("engine panicked: {}", msg), json!({})));
    ctx.sample(json!({"history_pair": ["1.e4 Nf6 2.Nf3 (no ep target)", "1.Nf3 Nf6 2.e4 (ep target e3)"], "note": "both lie in the depth-4 walk from the initial position; their keys must differ by exactly the e3 constant"}));
    ctx.sample(json!({"constants": {"piece": 768, "rights": 16, "ep_judged": 16}, "draw_fingerprint": format!("{:016x}", k.fingerprint())}));
    ctx.finish(ctx.counter("boards_checked_against_composition") + ctx.counter("constants_read"),
        "for this draw of the key tables: all 768+16+64 constants are read black-box from single-feature boards (non-zero, pairwise distinct per family, genuinely 64-bit); then every board visited by ordered and shuffled make/undo walks (depth 4 from the start, depth 2-3 from corpus seeds), seeded games with undo/redo detours and random direct set-ups must have key == XOR of its components' constants, == the key first seen for the same (placement, rights, ep) under another history, and (every 16th) == the key of a from-scratch twin built in random put order with put/remove detours. distinct_nontrivial = distinct positions reached by a second history or compared with a from-scratch twin",
        &["the all-rights board has key contribution 0 by construction, so only pairwise distinctness is demanded of the rights family", "side to move, clocks and repetition counts are deliberately not part of the key"],
        &[("positions_reached_by_a_second_history", 1000), ("boards_compared_with_from_scratch_twin", 1000), ("undo_redo_detours", 10), ("constants_read", 800)])
}

// ======================================================================================= C11

fn ray_attacks(sq: u8, occ: u64, dirs: &[(i8, i8)]) -> u64 {
    let mut m = 0u64;
    for (df, dr) in dirs {
        let (mut f, mut r) = (file_of(sq) + df, rank_of(sq) + dr);
        while let Some(q) = sq_of(f, r) { m |= 1 << q; if occ & (1 << q) != 0 { break; } f += df; r += dr; }
    }
    m
}

fn relevant_mask(sq: u8, dirs: &[(i8, i8)]) -> u64 {
    let mut m = 0u64;
    for (df, dr) in dirs {
        let (mut f, mut r) = (file_of(sq) + df, rank_of(sq) + dr);
        while let Some(q) = sq_of(f, r) { if sq_of(f + df, r + dr).is_none() { break; } m |= 1 << q; f += df; r += dr; }
    }
    m
}

const ROOK_DIRS: [(i8, i8); 4] = [(1, 0), (-1, 0), (0, 1), (0, -1)];
const BISHOP_DIRS: [(i8, i8); 4] = [(1, 1), (1, -1), (-1, 1), (-1, -1)];
const QUEEN_DIRS: [(i8, i8); 8] = [(1, 0), (-1, 0), (0, 1), (0, -1), (1, 1), (1, -1), (-1, 1), (-1, -1)];

fn lookup(g: &mut MoveGenerator, sq: u8, piece: Piece, colour: Color, blockers: u64) -> u64 {
    let mut b = Board::new();
    b.put(bb(sq), piece, colour).unwrap();
    let mut x = blockers & !(1u64 << sq);
    while x != 0 { let s = x.trailing_zeros() as u8; x &= x - 1; b.put(bb(s), Piece::Knight, colour.opposite()).unwrap(); }
    g.get_attack_targets(&b, colour).0
}

fn c11_slider_unit(ctx: &Ctx, sq: u8, which: u8, seed: u64) {
    let (piece, dirs, name): (Piece, &[(i8, i8)], &str) = match which { 0 => (Piece::Rook, &ROOK_DIRS, "rook"), 1 => (Piece::Bishop, &BISHOP_DIRS, "bishop"), _ => (Piece::Queen, &QUEEN_DIRS, "queen") };
    let mut g = MoveGenerator::new();
    let mut l = Local::default();
    let mut rng = Rng::new(seed);
    let mask = relevant_mask(sq, dirs);
    let check = |g: &mut MoveGenerator, l: &mut Local, colour: Color, occ: u64, variant: &'static str| {
        let want = ray_attacks(sq, occ, dirs);
        let got = match par::guarded(|| lookup(g, sq, piece, colour, occ)) { Ok(v) => v, Err(msg) => { ctx.violation(&format!("c11:panic:{}", par::last_panic_location()), &format!("lookup panicked for a {} on {} with blockers {:#x}: {}", name, sq_name(sq), occ, msg), json!({"piece": name, "square": sq_name(sq), "blockers": format!("{:#018x}", occ)})); return; } };
        l.inc("lookups");
        if occ & want != 0 { l.distinct.push((sq as u64) << 56 ^ (which as u64) << 52 ^ occ.wrapping_mul(0x9E37_79B9_7F4A_7C15) >> 12); }
        if got != want {
            // a stale attack-cache entry is C02's business: re-ask a brand-new generator first
            let fresh = lookup(&mut MoveGenerator::new(), sq, piece, colour, occ);
            l.inc("disagreements_reasked_fresh");
            if fresh != want {
                ctx.violation(&format!("c11:{}", name), &format!("{} on {} with occupied squares {:#018x} ({}): engine attacks {:#018x}, ray walking gives {:#018x}", name, sq_name(sq), occ, variant, fresh, want),
                    json!({"piece": name, "square": sq_name(sq), "colour": format!("{}", colour), "blockers": format!("{:#018x}", occ), "engine": format!("{:#018x}", fresh), "rays": format!("{:#018x}", want)}));
            }
        }
    };
    if which < 2 {
        // complete enumeration of the subsets of the relevant mask (carry-rippler)
        let mut sub = 0u64;
        loop {
            let colour = if sub.count_ones() % 2 == 0 { Color::White } else { Color::Black };
            check(&mut g, &mut l, colour, sub, "subset of the relevant squares");
            l.inc(if which == 0 { "rook_subsets_enumerated" } else { "bishop_subsets_enumerated" });
            // the same with extra pieces outside the mask (ray ends on the edge, off-ray squares)
            let mut extra = 0u64;
            for _ in 0..1 + rng.below(3) { let s = rng.below(64) as u64; if (1 << s) & mask == 0 && s != sq as u64 { extra |= 1 << s; } }
            check(&mut g, &mut l, colour.opposite(), sub | extra, "subset plus extra pieces outside the relevant squares");
            // blockers of every kind, the enemy king among them: what stands on a square must not matter
            if sub != 0 {
                let want = ray_attacks(sq, sub, dirs);
                let salt = rng.next_u64();
                match par::guarded(|| lookup_mixed(&mut g, sq, piece, colour, sub, salt)) {
                    Ok(got) => { l.inc("lookups_with_mixed_blockers_incl_enemy_king"); if got != want { let fresh = lookup_mixed(&mut MoveGenerator::new(), sq, piece, colour, sub, salt); if fresh != want {
                        ctx.violation(&format!("c11:{}-blocker-kind", name), &format!("{} on {} with occupied squares {:#018x} (first blocker is the enemy king, the others mixed pieces): engine attacks {:#018x}, ray walking gives {:#018x}", name, sq_name(sq), sub, fresh, want), json!({"piece": name, "square": sq_name(sq), "blockers": format!("{:#018x}", sub), "blocker_kinds": "king first, then q/r/b/n/p"})); } } }
                    Err(msg) => ctx.violation(&format!("c11:panic:{}", par::last_panic_location()), &format!("lookup with mixed blockers panicked: {}", msg), json!({})),
                }
            }
            sub = sub.wrapping_sub(mask) & mask;
            if sub == 0 { break; }
        }
    } else {
        for _ in 0..320 {
            let dens = 1 + rng.below(4);
            let mut occ = 0u64; for _ in 0..dens * 6 { occ |= 1 << rng.below(64); }
            occ &= !(1u64 << sq);
            let colour = if rng.chance(0.5) { Color::White } else { Color::Black };
            check(&mut g, &mut l, colour, occ, "random occupancy");
            l.inc("queen_samples");
        }
    }
    l.flush(ctx);
}

/// Like `lookup`, with blockers of mixed kinds: the first blocker (lowest square) is the enemy king, the others
/// rotate through queen, rook, bishop, knight and (off the back ranks) pawn.
fn lookup_mixed(g: &mut MoveGenerator, sq: u8, piece: Piece, colour: Color, blockers: u64, salt: u64) -> u64 {
    let mut b = Board::new();
    b.put(bb(sq), piece, colour).unwrap();
    let mut x = blockers & !(1u64 << sq);
    let mut i = salt;
    let mut first = true;
    while x != 0 {
        let s = x.trailing_zeros() as u8; x &= x - 1;
        let kind = if first { Piece::King } else { match i % 5 { 0 => Piece::Queen, 1 => Piece::Rook, 2 => Piece::Bishop, 3 => Piece::Knight, _ => if s >= 8 && s < 56 { Piece::Pawn } else { Piece::Knight } } };
        first = false; i += 1;
        b.put(bb(s), kind, colour.opposite()).unwrap();
    }
    g.get_attack_targets(&b, colour).0
}

/// Whole boards: colour `c` owns a king and one to three sliders, the other side anything. The attack map of `c`
/// must contain exactly the ray-walk squares of its sliders and the king's neighbours, except squares its own
/// pieces stand on (the engine's convention for own-occupied squares is not judged).
fn c11_boards(ctx: &Ctx, seed: u64, n: usize) {
    let mut g = MoveGenerator::new();
    let mut l = Local::default();
    let mut rng = Rng::new(seed);
    for _ in 0..n {
        let mut p = Pos::empty();
        let c = *rng.pick(&[Col::W, Col::B]);
        let mut free: Vec<u8> = (0..64u8).collect(); rng.shuffle(&mut free);
        let mut it = free.into_iter();
        let ks = it.next().unwrap();
        p.sq[ks as usize] = Some((c, Pc::K));
        let mut sliders: Vec<(u8, Pc)> = vec![];
        for _ in 0..1 + rng.below(3) { let s = it.next().unwrap(); let pc = *rng.pick(&[Pc::R, Pc::B, Pc::Q]); p.sq[s as usize] = Some((c, pc)); sliders.push((s, pc)); }
        p.sq[it.next().unwrap() as usize] = Some((c.opp(), Pc::K));
        for _ in 0..2 + rng.below(8) { let s = it.next().unwrap(); let pc = *rng.pick(&[Pc::R, Pc::B, Pc::Q, Pc::N, Pc::P, Pc::R, Pc::Q]); if pc == Pc::P && (s < 8 || s >= 56) { continue; } p.sq[s as usize] = Some((c.opp(), pc)); }
        let mut occ = 0u64; let mut own = 0u64;
        for s in 0..64 { if let Some((cc, _)) = p.sq[s] { occ |= 1 << s; if cc == c { own |= 1 << s; } } }
        let mut want = 0u64;
        for (s, pc) in &sliders { let dirs: &[(i8, i8)] = match pc { Pc::R => &ROOK_DIRS, Pc::B => &BISHOP_DIRS, _ => &QUEEN_DIRS }; want |= ray_attacks(*s, occ, dirs); }
        for (df, dr) in QUEEN_DIRS { if let Some(q) = sq_of(file_of(ks) + df, rank_of(ks) + dr) { want |= 1 << q; } }
        let b = to_engine(&p);
        let got = match par::guarded(|| g.get_attack_targets(&b, ecol(c)).0) { Ok(v) => v, Err(msg) => { ctx.violation(&format!("c11:panic:{}", par::last_panic_location()), &format!("attack map panicked on {}: {}", p.to_fen(), msg), json!({"fen": p.to_fen()})); continue; } };
        l.inc("whole_board_attack_maps_compared");
        l.distinct.push(p.key_hash());
        if got & !own != want & !own {
            let fresh = MoveGenerator::new().get_attack_targets(&to_engine(&p), ecol(c)).0;
            if fresh & !own != want & !own {
                ctx.violation("c11:sliders-amid-other-pieces", &format!("attack map of {:?} in {} is {:#018x}; ray walking of its sliders (plus the king's neighbours) gives {:#018x} outside its own pieces", c, p.to_fen(), fresh & !own, want & !own),
                    json!({"fen": p.to_fen(), "colour": format!("{:?}", c), "engine": format!("{:#018x}", fresh), "rays": format!("{:#018x}", want)}));
            }
        }
    }
    l.flush(ctx);
}

fn c11_leapers(ctx: &Ctx, seed: u64) {
    let mut g = MoveGenerator::new();
    let mut l = Local::default();
    let mut rng = Rng::new(seed);
    for (piece, name, offs) in [(Piece::Knight, "knight", [(1i8, 2i8), (2, 1), (2, -1), (1, -2), (-1, -2), (-2, -1), (-2, 1), (-1, 2)]), (Piece::King, "king", [(1, 0), (1, 1), (0, 1), (-1, 1), (-1, 0), (-1, -1), (0, -1), (1, -1)])] {
        for sq in 0..64u8 { for colour in [Color::White, Color::Black] { for variant in 0..3 {
            let mut want = 0u64;
            for (df, dr) in offs { if let Some(q) = sq_of(file_of(sq) + df, rank_of(sq) + dr) { want |= 1 << q; } }
            let mut occ = 0u64;
            if variant > 0 { for _ in 0..variant * 5 { occ |= 1 << rng.below(64); } occ &= !(1u64 << sq); }
            let got = match par::guarded(|| lookup(&mut g, sq, piece, colour, occ)) { Ok(v) => v, Err(msg) => { ctx.violation(&format!("c11:panic:{}", par::last_panic_location()), &format!("lookup panicked for a {} on {}: {}", name, sq_name(sq), msg), json!({})); continue; } };
            l.inc("leaper_lookups");
            l.distinct.push(0xabcd_0000 ^ (sq as u64) << 8 ^ variant as u64 ^ (piece as u64) << 20 ^ (colour as u64) << 24);
            if got != want {
                let fresh = lookup(&mut MoveGenerator::new(), sq, piece, colour, occ);
                if fresh != want { ctx.violation(&format!("c11:{}", name), &format!("{} on {}: engine attacks {:#018x}, the rules give {:#018x}", name, sq_name(sq), fresh, want), json!({"piece": name, "square": sq_name(sq), "engine": format!("{:#018x}", fresh), "rules": format!("{:#018x}", want)})); }
            }
        } } }
    }
    l.flush(ctx);
}

pub fn c11(o: &Opts) -> i32 {
    let ctx = default_ctx("C11", o, 60.0, 60.0);
    // result of the AddressSanitizer leg, run by ./check before the draws (thorough tier)
    if let Ok(n) = std::env::var("VERIF_ASAN_REPORTS") {
        let n: u64 = n.parse().unwrap_or(0);
        let lookups: u64 = std::env::var("VERIF_ASAN_LOOKUPS").ok().and_then(|s| s.parse().ok()).unwrap_or(0);
        ctx.count("asan_lookups_run", lookups); ctx.count("asan_reports", n);
        ctx.set_extra("address_sanitizer", json!({"lookups": lookups, "reports": n, "log": std::env::var("VERIF_ASAN_LOG").unwrap_or_default()}));
        if n > 0 { ctx.violation("c11:address-sanitizer-report", &format!("AddressSanitizer reported {} error(s) during table construction and {} lookups (log: {})", n, lookups, std::env::var("VERIF_ASAN_LOG").unwrap_or_default()), json!({"log": std::env::var("VERIF_ASAN_LOG").unwrap_or_default()})); }
    }
    let k = read_constants();
    ctx.set_extra("draw_fingerprint", json!(format!("{:016x}", k.fingerprint())));
    let mut units: Vec<(u8, u8)> = vec![];
    for which in 0..3u8 { for sq in 0..64u8 { units.push((sq, which)); } }
    units.push((255, 255));
    for k in 0..16u8 { units.push((254, k)); }
    // construction itself must not panic (index out of bounds on a bad multiplier/shift/offset)
    if let Err(msg) = par::guarded(|| { let _ = MoveGenerator::new(); }) {
        ctx.violation(&format!("c11:panic:{}", par::last_panic_location()), &format!("table construction panicked: {}", msg), json!({}));
        return ctx.finish(1, "table construction", &[], &[]);
    }
    par::for_each(&units, par::threads(), |i, (sq, which)| {
        if *sq == 255 { c11_leapers(&ctx, o.seed) } else if *sq == 254 { c11_boards(&ctx, o.seed ^ (*which as u64) << 30, 4000) } else { c11_slider_unit(&ctx, *sq, *which, o.seed ^ (i as u64) << 12) }
    }, |_i, u, msg| ctx.violation(&format!("c11:panic:{}", par::last_panic_location()), &format!("engine panicked in unit {:?}: {}", u, msg), json!({})));
    // the tables must not depend on the rayon pool the generator happens to be constructed in
    for pool in [1usize, 2, 3, 5, 6, 7, 12, 24] {
        let tp = match rayon::ThreadPoolBuilder::new().num_threads(pool).build() { Ok(p) => p, Err(_) => continue };
        let made = par::guarded(|| tp.install(MoveGenerator::new));
        let mut g = match made { Ok(g) => g, Err(msg) => { ctx.violation(&format!("c11:panic:{}", par::last_panic_location()), &format!("table construction inside a pool of {} threads panicked: {}", pool, msg), json!({"pool": pool})); continue; } };
        let mut rng = Rng::new(o.seed ^ pool as u64);
        for sq in 0..64u8 { for (piece, dirs, name) in [(Piece::Rook, &ROOK_DIRS[..], "rook"), (Piece::Bishop, &BISHOP_DIRS[..], "bishop")] {
            let mask = relevant_mask(sq, dirs);
            for k2 in 0..6 {
                let occ = if k2 == 0 { 0 } else { rng.next_u64() & rng.next_u64() & mask };
                let want = ray_attacks(sq, occ, dirs);
                let got = tp.install(|| lookup(&mut g, sq, piece, Color::White, occ));
                ctx.count("lookups_with_generators_built_in_other_pools", 1);
                if got != want { ctx.violation(&format!("c11:{}-depends-on-pool", name), &format!("{} on {} with occupied {:#018x}: a generator constructed inside a rayon pool of {} threads attacks {:#018x}, ray walking gives {:#018x}", name, sq_name(sq), occ, pool, got, want), json!({"piece": name, "square": sq_name(sq), "pool": pool, "blockers": format!("{:#018x}", occ)})); }
            }
        } }
    }
    let exhaustive = ctx.counter("rook_subsets_enumerated") == 102_400 && ctx.counter("bishop_subsets_enumerated") == 5_248;
    ctx.set_extra("exhaustive_for_this_draw", json!(exhaustive));
    ctx.sample(json!({"piece": "rook", "square": "d4", "blockers": "every one of the 1024 subsets of d2 d3 d5 d6 d7 b4 c4 e4 f4 g4", "expected": "ray walk up to and including the first occupied square"}));
    ctx.sample(json!({"piece": "bishop", "square": "a1", "blockers": "every subset of b2..g7", "extra": "1-3 knights on squares outside the relevant mask"}));
    ctx.finish(ctx.counter("lookups") + ctx.counter("leaper_lookups") + ctx.counter("lookups_with_mixed_blockers_incl_enemy_king") + ctx.counter("whole_board_attack_maps_compared") + ctx.counter("lookups_with_generators_built_in_other_pools"),
        "for this draw of the magic multipliers: for each of 64 squares, every subset of the relevant blocker squares of a rook (102 400 cases) and a bishop (5 248 cases) is set up as a lone slider plus enemy knights, each also with random extra pieces outside the relevant mask; 320 random occupancies per square for queens; lone knights and kings on all 64 squares, both colours, with and without bystanders; every non-empty subset again with blockers of mixed kinds (enemy king first, then queen/rook/bishop/knight/pawn); 64 000 whole boards in which the colour owns its king and 1-3 sliders amid enemy pieces (pins, checks); generators constructed inside rayon pools of 1-24 threads; MoveGenerator::get_attack_targets is compared with ray walking / offset lists, disagreements re-asked to a brand-new generator. distinct_nontrivial = distinct (piece, square, occupancy) with at least one blocker on a ray (+ leaper cases)",
        &["'every build' is sampled by forced re-draws of the build-time tables (see draws in the merged evidence)"],
        &[("rook_subsets_enumerated", 102_400), ("bishop_subsets_enumerated", 5_248), ("queen_samples", 20_000), ("leaper_lookups", 768), ("lookups_with_mixed_blockers_incl_enemy_king", 50_000), ("whole_board_attack_maps_compared", 20_000)])
}
