//! Position-quantified properties: C01 (move sets), C03 (successors), C06 (check/mate verdicts
//! and annotations), C13 (SAN), C18 (evaluation symmetry), C19 (UCI text and round trip).

use super::*;
use crate::bridge::*;
use crate::out::Local;
use crate::par;
use crate::snap::Snapshot;
use chess::board::Board;
use chess::chess_move::algebraic_notation::enumerate_candidate_moves_with_algebraic_notation;
use chess::chess_move::chess_move::ChessMove;
use chess::chess_move::chess_move_effect::ChessMoveEffect;
use chess::evaluate::{self, GameEnding};
use chess::game::game::Game;
use chess::move_generator::MoveGenerator;
use serde_json::json;

pub struct TState { pub gen: Option<MoveGenerator>, pub served: usize, pub local: Local }
impl TState {
    pub fn new() -> TState { TState { gen: None, served: 0, local: Local::default() } }
    /// Long-lived generator of this worker, retired after it has cached too much.
    pub fn used_gen(&mut self) -> &mut MoveGenerator {
        if self.gen.is_none() || self.served > 400_000 { self.gen = Some(MoveGenerator::new()); self.served = 0; }
        self.served += 1;
        self.gen.as_mut().unwrap()
    }
}

/// Engine board for a case: direct set-up, or reached by replaying the path (legal play).
pub fn board_for(case: &Case, idx: usize, l: &mut Local) -> Board {
    if case.path.is_empty() || idx % 4 == 0 { l.inc("boards_by_direct_setup"); return to_engine(&case.pos); }
    match replay(&case.root, &case.path) {
        Ok(b) => { l.inc("boards_by_replayed_play"); b }
        Err(_) => { l.inc("replay_failed_fell_back_to_setup"); to_engine(&case.pos) }
    }
}

fn shuffle_tail(cases: &mut Vec<Case>, keep_head: usize, seed: u64) {
    let mut r = Rng::new(seed).fork(tag("order"));
    let head = keep_head.min(cases.len());
    r.shuffle(&mut cases[head..]);
}

fn kind_name(m: &Mv) -> &'static str {
    match m.kind {
        Kind::Quiet => "quiet", Kind::Capture => "capture", Kind::DoublePush => "double_step", Kind::EnPassant => "en_passant",
        Kind::CastleK => "castle_kingside", Kind::CastleQ => "castle_queenside",
        Kind::Promo(Pc::Q) => "promotion_q", Kind::Promo(Pc::R) => "promotion_r", Kind::Promo(Pc::B) => "promotion_b", Kind::Promo(_) => "promotion_n",
        Kind::PromoCapture(Pc::Q) => "promotion_capture_q", Kind::PromoCapture(Pc::R) => "promotion_capture_r", Kind::PromoCapture(Pc::B) => "promotion_capture_b", Kind::PromoCapture(_) => "promotion_capture_n",
    }
}

fn run_pool<F: Fn(&Ctx, &mut TState, usize, &Case) + Sync>(ctx: &Ctx, cases: &[Case], stop_at: f64, f: F) {
    par::for_each_state(cases, par::threads(), TState::new,
        |st, i, case| {
            if ctx.budget_used() > stop_at { st.local.inc("cases_skipped_for_time_budget"); st.local.flush(ctx); return; }
            f(ctx, st, i, case);
            if i % 64 == 0 { st.local.flush(ctx); }
            st.local.flush(ctx);
        },
        |_i, case, msg| {
            let loc = par::last_panic_location();
            ctx.violation(&format!("{}:panic:{}", ctx.property.to_lowercase(), loc), &format!("engine panicked at {}: {}", loc, msg), case.json());
        });
}

// ======================================================================================= C01

fn diff_movesets(ek: &[MoveKey], rk: &[MoveKey]) -> Vec<(&'static str, MoveKey)> {
    let mut out = vec![];
    let mut e = ek.to_vec(); e.sort();
    let mut r = rk.to_vec(); r.sort();
    for w in e.windows(2) { if w[0] == w[1] { out.push(("duplicate", w[0])); } }
    e.dedup();
    for k in &e { if !r.contains(k) { out.push(("extra", *k)); } }
    for k in &r { if !e.contains(k) { out.push(("missing", *k)); } }
    out
}

fn c01_case(ctx: &Ctx, st: &mut TState, idx: usize, case: &Case, fresh: bool) {
    let p = &case.pos;
    let legal = p.legal_moves();
    let mut b = board_for(case, idx, &mut st.local);
    let turn = ecol(p.turn);
    let rk: Vec<MoveKey> = legal.iter().map(rkey).collect();
    if idx % 8 == 5 { b.set_turn(turn.opposite()); st.local.inc("positions_queried_with_the_turn_flag_on_the_other_side"); }
    let ems = if fresh { let mut g = MoveGenerator::new(); g.generate_moves(&mut b, turn) } else { st.used_gen().generate_moves(&mut b, turn) };
    let mut ek: Vec<MoveKey> = ems.iter().map(ekey).collect();
    let mut d = diff_movesets(&ek, &rk);
    if !d.is_empty() && !fresh {
        // a long-lived generator disagreed: only a brand-new generator decides C01
        st.local.inc("used_generator_disagreements_reasked_fresh");
        let mut b2 = to_engine(p);
        let e2 = MoveGenerator::new().generate_moves(&mut b2, turn);
        ek = e2.iter().map(ekey).collect();
        d = diff_movesets(&ek, &rk);
        if d.is_empty() { st.local.inc("history_dependent_answers_seen_(C02_business)"); }
    }
    st.local.inc(if fresh { "positions_checked_with_brand_new_generator" } else { "positions_checked_with_used_generator" });
    st.local.add("legal_moves_compared", legal.len() as u64);
    for m in &legal { st.local.inc_dyn(&format!("moves_{}", kind_name(m))); }
    let f = gen::features(p, &legal);
    f.tally(&mut st.local);
    if f.nontrivial() { st.local.distinct.push(p.key_hash()); }
    if idx % 997 == 0 { ctx.sample(json!({"fen": p.to_fen(), "origin": case.origin, "path": path_str(&case.root, &case.path), "legal_moves": legal.iter().map(|m| p.uci(m)).collect::<Vec<_>>() })); }
    for (cat, k) in d {
        let kind = ["std", "promo", "ep", "castle"][k.0 as usize];
        let mut r = case.json();
        r["engine_moves"] = json!(ek.iter().map(key_str).collect::<Vec<_>>());
        r["rules_moves"] = json!(rk.iter().map(key_str).collect::<Vec<_>>());
        ctx.violation(&format!("c01:{}:{}", cat, kind), &format!("{} move {} in {} (fresh generator)", cat, key_str(&k), p.to_fen()), r);
    }
}

pub fn c01(o: &Opts) -> i32 {
    let ctx = default_ctx("C01", o, 70.0, 600.0);
    if let Some(path) = &o.replay {
        let case = case_from_replay(&load_replay(path));
        let mut st = TState::new();
        c01_case(&ctx, &mut st, 1, &case, true);
        c01_case(&ctx, &mut st, 0, &case, true);
        st.local.flush(&ctx);
        return ctx.finish(2, "replay of one recorded case", &[], &[]);
    }
    let q = ctx.quick();
    let spec_fresh = PoolSpec { walk_depth: 1, walk_cap_per_root: 50, setups: if q { 3000 } else { 30000 }, endings: if q { 300 } else { 2000 }, games: if q { 5 } else { 50 }, game_plies: 150, game_stride: 3 };
    let mut fresh = position_pool(o.seed, &spec_fresh);
    let ncorpus = gen::corpus().len();
    shuffle_tail(&mut fresh, ncorpus, o.seed);
    run_pool(&ctx, &fresh, 0.6, |ctx, st, i, c| c01_case(ctx, st, i, c, true));
    let spec_bulk = PoolSpec { walk_depth: if q { 2 } else { 3 }, walk_cap_per_root: if q { 1500 } else { 20000 }, setups: if q { 20000 } else { 200000 }, endings: 2000, games: if q { 40 } else { 400 }, game_plies: 200, game_stride: 1 };
    let mut bulk = position_pool(o.seed ^ 0xb01c, &spec_bulk);
    shuffle_tail(&mut bulk, 0, o.seed);
    run_pool(&ctx, &bulk, 0.97, |ctx, st, i, c| c01_case(ctx, st, i, c, false));
    let n = ctx.counter("positions_checked_with_brand_new_generator") + ctx.counter("positions_checked_with_used_generator");
    ctx.finish(n,
        "positions = curated corpus (+mirrored twins), exhaustive walks from it, consistent random set-ups (6 material profiles, rights/ep drawn consistently), positions along seeded biased random games; each position's engine move list (brand-new generator; a second, larger pool with a long-lived generator whose disagreements are re-asked to a brand-new one) is compared as a multiset of (kind, from, to, promotion, captured) with the reference rule engine. distinct_nontrivial = distinct positions (reference key) with a check, ep target, castling right, promotion, pin or like-piece ambiguity",
        &["reference rule engine (validated against published perft values at start-up)", "FEN-style set-up through Board::new/put/set_turn/lose_castle_rights/push_en_passant_target is the board-editing API meant by the property"],
        &[("positions_checked_with_brand_new_generator", if q { 2000 } else { 20000 }), ("positions_ep_legal", 10), ("positions_ep_pseudo_legal_but_illegal", 1), ("positions_castle_available", 20), ("positions_castle_right_but_denied", 20), ("positions_promotion_available", 20), ("positions_double_check", 1), ("positions_in_check", 50)])
}

// ======================================================================================= C03

fn special_rights_events(p: &Pos, m: &Mv, l: &mut Local) {
    let corners: [(u8, &str); 4] = [(0, "a1"), (7, "h1"), (56, "a8"), (63, "h8")];
    let flags = [WQ, WK, BQ, BK];
    for (i, (sq, name)) in corners.iter().enumerate() {
        if m.to == *sq && m.captured == Some(Pc::R) && p.rights & flags[i] != 0 {
            if matches!(m.kind, Kind::PromoCapture(_)) { l.inc_dyn(&format!("home_rook_with_right_captured_{}_by_promoting_pawn", name)); }
            else { l.inc_dyn(&format!("home_rook_with_right_captured_{}_by_piece", name)); }
        }
        if m.from == *sq && m.piece == Pc::R && p.rights & flags[i] != 0 { l.inc_dyn(&format!("rook_leaves_{}_with_right", name)); }
    }
    if m.piece == Pc::K && !matches!(m.kind, Kind::CastleK | Kind::CastleQ) {
        let mine = if p.turn == Col::W { WK | WQ } else { BK | BQ };
        if p.rights & mine != 0 { l.inc(if p.turn == Col::W { "white_king_moves_with_rights" } else { "black_king_moves_with_rights" }); }
    }
}

fn c03_case(ctx: &Ctx, st: &mut TState, idx: usize, case: &Case) {
    let p = &case.pos;
    let legal = p.legal_moves();
    let mut b = board_for(case, idx, &mut st.local);
    let turn = ecol(p.turn);
    let before = observe(&b);
    if before != obs_of(p) { st.local.inc("bridge_mismatch"); ctx.note(&format!("bridge mismatch on {}", p.to_fen())); return; }
    let listed = st.used_gen().generate_moves(&mut b, turn);
    st.local.inc("positions");
    let f = gen::features(p, &legal);
    if f.nontrivial() { st.local.distinct.push(p.key_hash()); }
    for m in &legal {
        let want = p.make(m);
        let want_obs = obs_of(&want);
        let constructed = engine_move(m, p.turn);
        let mut objs: Vec<(&'static str, ChessMove)> = vec![("constructed", constructed)];
        if let Some(g) = listed.iter().find(|e| ekey(e) == rkey(m)) { objs.push(("generated", g.clone())); }
        let col = if p.turn == Col::W { "white" } else { "black" };
        st.local.inc_dyn(&format!("applied_{}_{}", col, kind_name(m)));
        special_rights_events(p, m, &mut st.local);
        for (how, em) in objs {
            let mut b2 = b.clone();
            let res = par::guarded(|| em.apply(&mut b2));
            st.local.inc("successors_compared");
            let mut fail: Option<(String, String)> = None;
            match res {
                Err(msg) => fail = Some((format!("c03:panic:{}", par::last_panic_location()), format!("apply panicked: {}", msg))),
                Ok(Err(e)) => fail = Some((format!("c03:apply-error:{}", kind_name(m)), format!("apply of a legal move failed: {:?}", e))),
                Ok(Ok(())) => {
                    let got = observe(&b2);
                    if got != want_obs {
                        let what = if got.sq != want_obs.sq { "placement" } else if got.rights != want_obs.rights { "rights" } else { "ep" };
                        fail = Some((format!("c03:successor-{}:{}", what, kind_name(m)), format!("successor differs: {}", obs_diff(&got, &want_obs))));
                    } else if b2.turn() != turn {
                        fail = Some((format!("c03:turn-changed:{}", kind_name(m)), "making a move changed the side to move".to_string()));
                    }
                }
            }
            if let Some((sig, what)) = fail {
                let mut r = case.json();
                r["move"] = json!(p.uci(m)); r["move_object"] = json!(how);
                ctx.violation(&sig, &format!("{} {} ({} object) in {}: {}", kind_name(m), p.uci(m), how, p.to_fen(), what), r);
            }
        }
    }
    if idx % 499 == 0 && !legal.is_empty() { let m = &legal[idx % legal.len()]; ctx.sample(json!({"fen": p.to_fen(), "move": p.uci(m), "kind": kind_name(m), "successor": p.make(m).to_fen()})); }
}

pub fn c03(o: &Opts) -> i32 {
    let ctx = default_ctx("C03", o, 45.0, 600.0);
    if let Some(path) = &o.replay {
        let case = case_from_replay(&load_replay(path));
        let mut st = TState::new();
        c03_case(&ctx, &mut st, 0, &case); c03_case(&ctx, &mut st, 1, &case);
        st.local.flush(&ctx);
        return ctx.finish(2, "replay of one recorded case", &[], &[]);
    }
    let q = ctx.quick();
    let spec = PoolSpec { walk_depth: if q { 2 } else { 3 }, walk_cap_per_root: if q { 1500 } else { 8000 }, setups: if q { 80000 } else { 400000 }, endings: 2000, games: if q { 150 } else { 800 }, game_plies: 200, game_stride: 1 };
    let mut cases = position_pool(o.seed, &spec);
    shuffle_tail(&mut cases, gen::corpus().len(), o.seed);
    run_pool(&ctx, &cases, 0.97, c03_case);
    // the same through the game front end's move funnel, along whole games in one Game: shuffles that pass a third
    // occurrence and a half-move clock of 100 (claimable draws, legal moves remain), and ordinary games
    {
        let mut gr = Rng::new(o.seed).fork(tag("c03-game-funnel"));
        let mut games: Vec<(Pos, Vec<Mv>)> = vec![];
        for g in 0..if q { 24 } else { 240 } {
            let root = match g % 4 { 0 => Pos::from_fen("8/8/4k3/3Nn3/3nN3/4K3/8/8 w - - 0 1").unwrap(), 1 => gen::random_ending(&mut gr), 2 => Pos::start(), _ => gen::random_setup(&mut gr) };
            let path = gen::random_game(&root, &mut gr, if g % 4 <= 1 { Policy::Shuffle } else { gen::POLICIES[g % 5] }, if g % 4 == 0 { 130 } else { 60 });
            games.push((root, path));
        }
        par::for_each(&games, par::threads(), |_i, (root, path)| {
            let mut l = Local::default();
            let mut game = Game::from_board(to_engine(root), 0);
            let mut p = root.clone();
            let mut seen: std::collections::HashMap<PosKey, u32> = std::collections::HashMap::new();
            for (i, m) in path.iter().enumerate() {
                let n = { let e = seen.entry(p.key()).or_insert(0); *e += 1; *e };
                if n >= 3 { l.inc("funnel_moves_made_at_a_third_or_later_occurrence"); }
                if game.board().halfmove_clock() as u64 >= 100 { l.inc("funnel_moves_made_with_half_move_clock_100_or_more"); }
                let em = engine_move(m, p.turn);
                let res = par::guarded(|| game.apply_chess_move(em.clone()));
                l.inc("successors_compared_through_the_game_funnel");
                let replay = json!({"root_fen": root.to_fen(), "path": (0..=i).scan(root.clone(), |s, k| { let t = s.uci(&path[k]); *s = s.make(&path[k]); Some(t) }).collect::<Vec<_>>(), "fen": p.to_fen(), "move": p.uci(m)});
                match res {
                    Err(msg) => { ctx.violation(&format!("c03:panic:{}", par::last_panic_location()), &format!("Game::apply_chess_move panicked on {} in {}: {}", p.uci(m), p.to_fen(), msg), replay); break; }
                    Ok(Err(e)) => { ctx.violation(&format!("c03:game-funnel-refuses-a-legal-move:{}", kind_name(m)), &format!("Game::apply_chess_move refused the legal move {} in {} (occurrence {} of the position, half-move clock {}): {:?}", p.uci(m), p.to_fen(), n, game.board().halfmove_clock(), e), replay); break; }
                    Ok(Ok(())) => {}
                }
                p = p.make(m);
                let got = observe(game.board());
                let want = obs_of(&p);
                if got != want { ctx.violation(&format!("c03:successor-through-game-funnel:{}", kind_name(m)), &format!("after {} through Game::apply_chess_move the position differs: {}", p.uci(m), obs_diff(&got, &want)), replay); break; }
                game.board_mut().toggle_turn();
            }
            l.flush(&ctx);
        }, |_i, u, msg| ctx.violation(&format!("c03:panic:{}", par::last_panic_location()), &format!("engine panicked: {}", msg), json!({"root_fen": u.0.to_fen()})));
    }
    let mut gates: Vec<(String, u64)> = vec![];
    for col in ["white", "black"] {
        for k in ["quiet", "capture", "double_step", "en_passant", "castle_kingside", "castle_queenside", "promotion_q", "promotion_r", "promotion_b", "promotion_n", "promotion_capture_q", "promotion_capture_r", "promotion_capture_b", "promotion_capture_n"] {
            gates.push((format!("applied_{}_{}", col, k), 1));
        }
    }
    for c in ["a1", "h1", "a8", "h8"] {
        gates.push((format!("home_rook_with_right_captured_{}_by_piece", c), 1));
        gates.push((format!("home_rook_with_right_captured_{}_by_promoting_pawn", c), 1));
        gates.push((format!("rook_leaves_{}_with_right", c), 1));
    }
    gates.push(("white_king_moves_with_rights".into(), 1)); gates.push(("black_king_moves_with_rights".into(), 1));
    let g2: Vec<(&str, u64)> = gates.iter().map(|(a, b)| (a.as_str(), *b)).collect();
    ctx.finish(ctx.counter("successors_compared"),
        "every legal move (reference rules) of every pool position is applied to a clone of the engine board, once as an object built through the public move constructors and once as the generator's own object; placement on 64 squares, castling rights and ep target are compared with the reference successor, and turn() must be unchanged. distinct_nontrivial = distinct positions with a special feature (check, ep, castling right, promotion, pin)",
        &["reference make() written from the FIDE laws; clocks and the position key are judged by C16/C05, not here"],
        &g2)
}

// ======================================================================================= C06

fn ending_name(e: &Option<GameEnding>) -> &'static str {
    match e { None => "none", Some(GameEnding::Checkmate) => "checkmate", Some(GameEnding::Stalemate) => "stalemate", Some(GameEnding::Draw) => "draw" }
}

fn c06_with(ctx: &Ctx, l: &mut Local, case: &Case, b: &mut Board, g: &mut MoveGenerator, who: &'static str) -> Vec<(String, String)> {
    let p = &case.pos;
    let turn = ecol(p.turn);
    let legal = p.legal_moves();
    let in_check = p.in_check(p.turn);
    let status = if !legal.is_empty() { "none" } else if in_check { "checkmate" } else { "stalemate" };
    let mut fails: Vec<(String, String)> = vec![];
    // both colours, in either order (the side not to move is never in check in a consistent position)
    let other = p.turn.opp();
    let other_first = (p.key_hash() >> 7) & 1 == 0;
    if other_first {
        let oc = evaluate::player_is_in_check(b, g, ecol(other));
        l.inc("verdicts_for_the_side_not_to_move");
        if oc != p.in_check(other) { fails.push((format!("c06:in-check-other-colour:{}", who), format!("player_is_in_check({:?}) = {} for the side not to move", other, oc))); }
    }
    let chk = evaluate::player_is_in_check(b, g, turn);
    if chk != in_check { fails.push((format!("c06:in-check:{}", who), format!("player_is_in_check = {} but the king {} attacked", chk, if in_check { "is" } else { "is not" }))); }
    if b.turn() == turn { let c2 = evaluate::current_player_is_in_check(b, g); if c2 != in_check { fails.push((format!("c06:current-in-check:{}", who), format!("current_player_is_in_check = {}", c2))); } }
    if !other_first {
        let oc = evaluate::player_is_in_check(b, g, ecol(other));
        l.inc("verdicts_for_the_side_not_to_move");
        if oc != p.in_check(other) { fails.push((format!("c06:in-check-other-colour:{}", who), format!("player_is_in_check({:?}) = {} for the side not to move (asked right after the side to move)", other, oc))); }
        // and the side to move once more, now that the other colour was the latest query
        let again = evaluate::player_is_in_check(b, g, turn);
        if again != in_check { fails.push((format!("c06:in-check-after-other-colour:{}", who), format!("player_is_in_check = {} when asked again after a query for the other colour; the king {} attacked", again, if in_check { "is" } else { "is not" }))); }
    }
    let mate = evaluate::player_is_in_checkmate(b, g, turn);
    if mate != (status == "checkmate") { fails.push((format!("c06:checkmate-verdict:{}", who), format!("player_is_in_checkmate = {} but the position is {}", mate, status))); }
    l.add("verdicts_compared", 3);
    if (b.halfmove_clock() as u64) <= 20 && (b.max_seen_position_count() as u64) < 3 {
        let e = evaluate::game_ending(b, g, turn);
        l.inc("game_ending_compared");
        if ending_name(&e) != status { fails.push((format!("c06:game-ending:{}", who), format!("game_ending = {} but the position is {}", ending_name(&e), status))); }
    }
    let ann = g.generate_moves_and_lazily_update_chess_move_effects(b, turn);
    for em in ann.iter() {
        let rm = match legal.iter().find(|m| rkey(m) == ekey(em)) { Some(m) => m, None => continue };
        let n = p.make(rm);
        let want = if n.in_check(n.turn) { if n.legal_moves().is_empty() { ChessMoveEffect::Checkmate } else { ChessMoveEffect::Check } } else { ChessMoveEffect::None };
        l.inc("annotations_compared");
        match want { ChessMoveEffect::Checkmate => l.inc("moves_giving_mate"), ChessMoveEffect::Check => {
            l.inc("moves_giving_check");
            // discovered: the moved piece itself does not attack the king
            let k = n.king_sq(n.turn).unwrap();
            let mut only = n.clone();
            for t in 0..64usize { if t != rm.to as usize { if let Some((c, _)) = only.sq[t] { if c == p.turn { only.sq[t] = Some((n.turn, Pc::P)); } } } }
            if !only.attacked(k, p.turn) { l.inc("discovered_checks"); if rm.kind == Kind::EnPassant { l.inc("en_passant_discovered_checks"); } }
            if matches!(rm.kind, Kind::Promo(_) | Kind::PromoCapture(_)) { l.inc("promotion_checks"); }
            if matches!(rm.kind, Kind::CastleK | Kind::CastleQ) { l.inc("castling_checks"); }
        } _ => {} }
        if em.effect() != want {
            fails.push((format!("c06:annotation:{}", who), format!("move {} annotated {:?}, the position it produces says {:?}", p.uci(rm), em.effect(), want)));
        }
    }
    let _ = ctx;
    fails
}

fn c06_case(ctx: &Ctx, st: &mut TState, idx: usize, case: &Case, fresh_every: usize) {
    let p = &case.pos;
    let mut b = board_for(case, idx, &mut st.local);
    let legal = p.legal_moves();
    st.local.inc("positions");
    if legal.is_empty() { st.local.inc(if p.in_check(p.turn) { "checkmated_positions" } else { "stalemated_positions" }); }
    let f = gen::features(p, &legal);
    f.tally(&mut st.local);
    if f.nontrivial() { st.local.distinct.push(p.key_hash()); }
    let fresh = idx % fresh_every == 0 || legal.is_empty();
    let mut fails = if fresh {
        st.local.inc("positions_with_brand_new_generator");
        let mut g = MoveGenerator::new();
        c06_with(ctx, &mut st.local, case, &mut b, &mut g, "fresh")
    } else {
        st.local.inc("positions_with_used_generator");
        let mut l = std::mem::take(&mut st.local);
        let r = c06_with(ctx, &mut l, case, &mut b, st.used_gen(), "used");
        st.local = l;
        r
    };
    if !fails.is_empty() && !fresh {
        // classify: does a brand-new generator get it right? (history-dependent => same root cause as C02, still a C06 violation)
        let mut g = MoveGenerator::new();
        let mut b2 = to_engine(p);
        let mut l2 = Local::default();
        let again = c06_with(ctx, &mut l2, case, &mut b2, &mut g, "fresh");
        if again.is_empty() { for f in fails.iter_mut() { f.1.push_str(" [history-dependent: a brand-new generator answers correctly]"); } }
        else { fails = again; }
    }
    // the same questions on a board whose history says "drawn" (clock at 100 / position registered three times):
    // check, checkmate and the annotations are about the position, not about the history
    if fails.is_empty() && (idx % 5 == 0 || legal.is_empty() || legal.iter().any(|m| { let n = p.make(m); n.in_check(n.turn) && n.legal_moves().is_empty() })) {
        let mut hb = to_engine(p);
        if idx % 2 == 0 { hb.push_halfmove_clock(100); st.local.inc("positions_re_asked_with_half_move_clock_100"); } else { for _ in 0..3 { hb.count_current_position(); } st.local.inc("positions_re_asked_after_three_registrations"); }
        let turn = ecol(p.turn);
        let in_check = p.in_check(p.turn);
        let g = st.used_gen();
        let chk = evaluate::player_is_in_check(&hb, g, turn);
        let mate = evaluate::player_is_in_checkmate(&mut hb, g, turn);
        let mut hf: Vec<(String, String)> = vec![];
        if chk != in_check { hf.push(("c06:in-check:history-dependent".into(), format!("player_is_in_check = {} on a board with a drawn-by-history state", chk))); }
        if mate != (in_check && legal.is_empty()) { hf.push(("c06:checkmate-verdict:history-dependent".into(), format!("player_is_in_checkmate = {} on a board with a drawn-by-history state; the position is {}", mate, if legal.is_empty() { if in_check { "checkmate" } else { "stalemate" } } else { "not terminal" }))); }
        let ann = g.generate_moves_and_lazily_update_chess_move_effects(&mut hb, turn);
        for em in ann.iter() {
            if let Some(rm) = legal.iter().find(|m| rkey(m) == ekey(em)) {
                let n = p.make(rm);
                let want = if n.in_check(n.turn) { if n.legal_moves().is_empty() { ChessMoveEffect::Checkmate } else { ChessMoveEffect::Check } } else { ChessMoveEffect::None };
                if em.effect() != want { hf.push(("c06:annotation:history-dependent".into(), format!("move {} annotated {:?} on a board with a drawn-by-history state; the position it produces says {:?}", p.uci(rm), em.effect(), want))); break; }
            }
        }
        fails.extend(hf);
    }
    if (fresh && idx % (fresh_every * 4) == 0) || (legal.is_empty() && idx % 3 == 0) {
        // the Game-level verdict (sampled; for every third finished position)
        if legal.is_empty() { st.local.inc("game_level_verdicts_on_finished_positions"); }
        let mut game = Game::from_board(to_engine(p), 0);
        if (game.board().halfmove_clock() as u64) <= 20 {
            let e = game.check_game_over_for_current_turn();
            let status = if !legal.is_empty() { "none" } else if p.in_check(p.turn) { "checkmate" } else { "stalemate" };
            st.local.inc("game_level_verdicts_compared");
            if ending_name(&e) != status { fails.push(("c06:game-over-verdict".to_string(), format!("Game::check_game_over_for_current_turn = {} but the position is {}", ending_name(&e), status))); }
        }
    }
    if idx % 701 == 0 { ctx.sample(json!({"fen": p.to_fen(), "in_check": p.in_check(p.turn), "legal_moves": legal.len(), "origin": case.origin})); }
    for (sig, what) in fails { ctx.violation(&sig, &format!("{} in {}", what, p.to_fen()), case.json()); }
}

pub fn c06(o: &Opts) -> i32 {
    let ctx = default_ctx("C06", o, 70.0, 600.0);
    if let Some(path) = &o.replay {
        let case = case_from_replay(&load_replay(path));
        let mut st = TState::new();
        c06_case(&ctx, &mut st, 0, &case, 1); c06_case(&ctx, &mut st, 1, &case, 1);
        st.local.flush(&ctx);
        return ctx.finish(2, "replay of one recorded case", &[], &[]);
    }
    let q = ctx.quick();
    let spec = PoolSpec { walk_depth: if q { 2 } else { 3 }, walk_cap_per_root: if q { 120 } else { 3000 }, setups: if q { 5000 } else { 60000 }, endings: if q { 4000 } else { 40000 }, games: if q { 40 } else { 400 }, game_plies: 160, game_stride: 1 };
    let mut cases = position_pool(o.seed, &spec);
    // mate-rich extras: check-seeking games from random endings
    let mut r = Rng::new(o.seed).fork(tag("c06-mates"));
    let mut seen = HashSet::new();
    for _ in 0..if q { 150 } else { 2000 } {
        let root = gen::random_ending(&mut r);
        let path = gen::random_game(&root, &mut r, Policy::CheckSeeking, 80);
        let all = gen::game_cases(&root, &path, "check-seeking-ending", 1);
        for c in all.into_iter().rev().take(3) { if seen.insert(c.pos.key()) { cases.push(c); } }
    }
    let mut rt = Rng::new(o.seed).fork(tag("c06-terminal"));
    let tries = if q { 150_000 } else { 1_500_000 };
    for p in gen::terminal_with_pieces(&mut rt, tries, true) { if seen.insert(p.key()) {
        ctx.count("stalemates_where_the_stalemated_side_has_pieces", 1);
        let fwd: i32 = if p.turn == Col::W { 8 } else { -8 };
        if (0..64i32).any(|s| p.sq[s as usize] == Some((p.turn, Pc::P)) && (0..64).contains(&(s + fwd)) && p.sq[(s + fwd) as usize].is_none()) { ctx.count("stalemates_with_a_pinned_pawn_that_could_otherwise_advance", 1); }
        cases.push(Case::setup(p, "stalemate-with-pieces")); } }
    for p in gen::terminal_with_pieces(&mut rt, tries / 4, false) { if seen.insert(p.key()) { cases.push(Case::setup(p, "mate-with-pieces")); } }
    for p in gen::pinned_pawn_stalemates(&mut rt, tries) { if seen.insert(p.key()) { ctx.count("stalemates_with_a_pinned_pawn_that_could_otherwise_advance", 1); cases.push(Case::setup(p, "stalemate-with-a-pinned-pawn")); } }
    for p in gen::lone_minor_mates(&mut rt, tries) { if seen.insert(p.key()) { ctx.count("positions_where_a_lone_minor_piece_mates", 1); cases.push(Case::setup(p, "lone-minor-mate")); } }
    shuffle_tail(&mut cases, gen::corpus().len(), o.seed);
    run_pool(&ctx, &cases, 0.97, |ctx, st, i, c| c06_case(ctx, st, i, c, 12));
    ctx.finish(ctx.counter("verdicts_compared") + ctx.counter("annotations_compared") + ctx.counter("game_ending_compared"),
        "pool positions plus mate-rich endings; in-check / checkmate / game_ending verdicts and the check/checkmate/none annotation of every legal move are compared with the reference (attack test on the king; legal-move emptiness of the successor). Every 12th position and every terminal one uses a brand-new generator, the rest a long-lived per-thread generator (mismatches re-asked to a fresh one for classification). distinct_nontrivial = distinct positions with check / ep / rights / promotion / pin / terminal",
        &["game_ending is compared only when the half-move clock is <= 20 and the repetition count < 3 (move-count and repetition draws belong to C16/C17)"],
        &[("checkmated_positions", if q { 50 } else { 500 }), ("stalemated_positions", if q { 20 } else { 200 }), ("moves_giving_mate", 50), ("discovered_checks", 20), ("positions_double_check", 1), ("promotion_checks", 5), ("positions_with_brand_new_generator", if q { 300 } else { 3000 }), ("stalemates_where_the_stalemated_side_has_pieces", 10), ("verdicts_for_the_side_not_to_move", 1000), ("positions_where_a_lone_minor_piece_mates", 3)])
}

// ======================================================================================= C13

fn san_diff_class(got: &str, want: &str) -> &'static str {
    let strip = |s: &str| s.trim_end_matches(|c| c == '+' || c == '#').to_string();
    let (g0, w0) = (strip(got), strip(want));
    if g0 == w0 { return "suffix"; }
    if g0.replace('x', "") == w0.replace('x', "") { return "capture-mark"; }
    let gp = g0.split('=').next().unwrap_or("").to_string(); let wp = w0.split('=').next().unwrap_or("").to_string();
    if gp == wp { return "promotion"; }
    // same piece letter and same destination => disambiguation differs
    let dest = |s: &str| { let t: String = s.chars().rev().take(2).collect::<Vec<_>>().into_iter().rev().collect(); t };
    if gp.chars().next() == wp.chars().next() && dest(&gp) == dest(&wp) { return "disambiguation"; }
    "other"
}

fn c13_case(ctx: &Ctx, st: &mut TState, idx: usize, case: &Case) {
    let p = &case.pos;
    let legal = p.legal_moves();
    let mut b = board_for(case, idx, &mut st.local);
    let turn = ecol(p.turn);
    let via_game = idx % 40 == 0;
    let labels: Vec<(ChessMove, String)> = if via_game {
        st.local.inc("positions_via_Game_enumerated_candidate_moves");
        let mut game = Game::from_board(b.clone(), 0);
        game.enumerated_candidate_moves()
    } else {
        enumerate_candidate_moves_with_algebraic_notation(&mut b, turn, st.used_gen())
    };
    st.local.inc("positions");
    let f = gen::features(p, &legal);
    f.tally(&mut st.local);
    if f.like_piece_ambiguity { st.local.distinct.push(p.key_hash()); }
    let mut seen: std::collections::HashMap<String, String> = std::collections::HashMap::new();
    for (em, label) in labels.iter() {
        let rm = match legal.iter().find(|m| rkey(m) == ekey(em)) { Some(m) => m, None => { st.local.inc("labelled_moves_not_legal_(C01_business)"); continue; } };
        let want = p.san(rm, &legal);
        st.local.inc("labels_compared");
        // classify the disambiguation this move needed
        if rm.piece != Pc::P && rm.piece != Pc::K {
            let others: Vec<&Mv> = legal.iter().filter(|o| o.piece == rm.piece && o.to == rm.to && o.from != rm.from).collect();
            if !others.is_empty() {
                let sf = others.iter().any(|o| o.from % 8 == rm.from % 8); let sr = others.iter().any(|o| o.from / 8 == rm.from / 8);
                st.local.inc(match (sf, sr) { (false, false) => "labels_needing_file_(different_file_and_rank)", (false, true) => "labels_needing_file_(same_rank)", (true, false) => "labels_needing_rank", (true, true) => "labels_needing_square" });
            }
        }
        if *label != want {
            let class = san_diff_class(label, &want);
            let mut r = case.json(); r["move"] = json!(p.uci(rm)); r["engine_label"] = json!(label); r["standard_label"] = json!(want);
            ctx.violation(&format!("c13:{}", class), &format!("move {} in {} is labelled {:?}; standard notation is {:?}", p.uci(rm), p.to_fen(), label, want), r);
        }
        if let Some(prev) = seen.insert(label.clone(), p.uci(rm)) {
            if prev != p.uci(rm) {
                let mut r = case.json(); r["label"] = json!(label); r["moves"] = json!([prev, p.uci(rm)]);
                ctx.violation("c13:duplicate-label", &format!("moves {} and {} of {} share the label {:?}", prev, p.uci(rm), p.to_fen(), label), r);
            }
        }
    }
    if labels.len() != legal.len() { st.local.inc("label_count_differs_from_legal_count_(C01_business)"); }
    // notation is about the position: the same labels on a board whose clocks / repetition bookkeeping say "almost drawn"
    let has_mate = legal.iter().any(|m| { let n = p.make(m); n.in_check(n.turn) && n.legal_moves().is_empty() });
    if has_mate || idx % 16 == 3 {
        let mut hb = to_engine(p);
        match idx % 3 { 0 => { hb.push_halfmove_clock(99); } 1 => { hb.push_halfmove_clock(100); } _ => { hb.count_current_position(); hb.count_current_position(); } }
        let again = enumerate_candidate_moves_with_algebraic_notation(&mut hb, turn, st.used_gen());
        st.local.inc("positions_labelled_again_on_a_board_with_a_drawish_history");
        for (em, label) in again.iter() {
            if let Some(rm) = legal.iter().find(|m| rkey(m) == ekey(em)) {
                let want = p.san(rm, &legal);
                if *label != want {
                    let mut r = case.json(); r["move"] = json!(p.uci(rm)); r["engine_label"] = json!(label); r["standard_label"] = json!(want); r["board_history"] = json!(["half-move clock 99", "half-move clock 100", "position registered twice"][idx % 3]);
                    ctx.violation(&format!("c13:{}:history-dependent", san_diff_class(label, &want)), &format!("move {} in {} is labelled {:?} on a board with {}; standard notation is {:?}", p.uci(rm), p.to_fen(), label, ["half-move clock 99", "half-move clock 100", "the position registered twice"][idx % 3], want), r);
                    break;
                }
            }
        }
    }
    if idx % 613 == 0 { ctx.sample(json!({"fen": p.to_fen(), "labels": labels.iter().map(|x| x.1.clone()).collect::<Vec<_>>() })); }
}

fn c13_game_listing(ctx: &Ctx, l: &mut Local, root: &Pos, path: &[Mv]) {
    let mut game = Game::from_board(to_engine(root), 0);
    let mut p = root.clone();
    for i in 0..=path.len() {
        let legal = p.legal_moves();
        if legal.is_empty() { break; }
        let listed = match par::guarded(|| game.enumerated_candidate_moves()) { Ok(x) => x, Err(msg) => { ctx.violation(&format!("c13:panic:{}", par::last_panic_location()), &format!("listing the candidates of {} panicked: {}", p.to_fen(), msg), json!({"root_fen": root.to_fen(), "path": path_str(root, &path[..i])})); return; } };
        l.inc("listings_through_one_game_compared");
        let mut got: Vec<(MoveKey, String)> = listed.iter().map(|x| (ekey(&x.0), x.1.clone())).collect(); got.sort();
        let mut want: Vec<(MoveKey, String)> = legal.iter().map(|m| (rkey(m), p.san(m, &legal))).collect(); want.sort();
        if got != want {
            let first = got.iter().find(|x| !want.contains(x)).map(|x| format!("{} {:?}", key_str(&x.0), x.1)).unwrap_or_default();
            ctx.violation("c13:game-listing-differs", &format!("after {} plies in one game the candidates listed for {} differ from the position's standard labels (e.g. listed {})", i, p.to_fen(), first), json!({"root_fen": root.to_fen(), "path": path_str(root, &path[..i]), "fen": p.to_fen()}));
            return;
        }
        if i == path.len() { break; }
        let m = &path[i];
        if matches!(m.kind, Kind::Promo(x) | Kind::PromoCapture(x) if x != Pc::Q) { break; }
        if !matches!(par::guarded(|| game.apply_chess_move_by_from_to_coordinates(bb(m.from), bb(m.to))), Ok(Ok(_))) { l.inc("game_move_rejected_(C14_business)"); return; }
        game.board_mut().toggle_turn();
        p = p.make(m);
    }
    l.inc("games_listed_through_one_game");
}

pub fn c13(o: &Opts) -> i32 {
    let ctx = default_ctx("C13", o, 50.0, 600.0);
    if let Some(path) = &o.replay {
        let case = case_from_replay(&load_replay(path));
        let mut st = TState::new();
        c13_case(&ctx, &mut st, 1, &case); c13_case(&ctx, &mut st, 0, &case);
        st.local.flush(&ctx);
        return ctx.finish(2, "replay of one recorded case", &[], &[]);
    }
    let q = ctx.quick();
    let spec = PoolSpec { walk_depth: if q { 2 } else { 3 }, walk_cap_per_root: if q { 150 } else { 4000 }, setups: if q { 6000 } else { 100000 }, endings: 500, games: if q { 30 } else { 400 }, game_plies: 160, game_stride: 1 };
    let mut cases = position_pool(o.seed, &spec);
    let mut r = Rng::new(o.seed).fork(tag("c13-dense"));
    let mut seen = HashSet::new();
    for _ in 0..if q { 12000 } else { 200000 } { let prof = *r.pick(&[2usize, 2, 4, 3]); let p = gen::random_setup_profile(&mut r, prof); if seen.insert(p.key()) { cases.push(Case::setup(p, "like-piece-dense-setup")); } }
    { let mut rt = Rng::new(o.seed).fork(tag("c13-minor-mates")); for p in gen::lone_minor_mates(&mut rt, if q { 150_000 } else { 1_000_000 }) { cases.push(Case::setup(p, "lone-minor-mate")); } }
    shuffle_tail(&mut cases, gen::corpus().len(), o.seed);
    run_pool(&ctx, &cases, 0.9, c13_case);
    {
        let mut gr = Rng::new(o.seed).fork(tag("c13-games"));
        let mut games: Vec<(Pos, Vec<Mv>)> = vec![];
        let tri = Pos::from_fen("7k/8/8/8/8/8/8/K7 w - - 0 1").unwrap();
        if let Ok(path) = parse_path(&tri, &["a1b1", "h8g8", "b1b2", "g8h8", "b2a1"].iter().map(|s| s.to_string()).collect::<Vec<_>>()) { games.push((tri, path)); }
        let st = Pos::start();
        if let Ok(path) = parse_path(&st, &["e2e3", "e7e6", "f1e2", "f8e7", "e2d3", "e7f8", "d3f1"].iter().map(|s| s.to_string()).collect::<Vec<_>>()) { games.push((st, path)); }
        for g in 0..if q { 40 } else { 400 } {
            let root = match g % 3 { 0 => gen::random_ending(&mut gr), 1 => Pos::start(), _ => gen::random_setup(&mut gr) };
            let n = 20 + gr.below(40);
            let path = gen::random_game(&root, &mut gr, if g % 3 == 0 { Policy::Shuffle } else { gen::POLICIES[g % 5] }, n);
            games.push((root, path));
        }
        par::for_each(&games, par::threads(), |_i, (root, path)| { let mut l = Local::default(); c13_game_listing(&ctx, &mut l, root, path); l.flush(&ctx); },
            |_i, u, msg| ctx.violation(&format!("c13:panic:{}", par::last_panic_location()), &format!("engine panicked: {}", msg), json!({"root_fen": u.0.to_fen()})));
    }
    ctx.finish(ctx.counter("labels_compared"),
        "pool positions plus set-ups dense in like pieces (2-5 knights/rooks/queens/bishops of one colour, promoted queens, promotion-ready pawns); every label from enumerate_candidate_moves_with_algebraic_notation (every 40th position through Game::enumerated_candidate_moves) is compared with the reference SAN writer and labels must be pairwise distinct. distinct_nontrivial = distinct positions in which two like pieces can legally reach one square",
        &["reference SAN writer follows FIDE C.10 (file, then rank, then square; among legal moves only); no 'e.p.' suffix demanded"],
        &[("labels_needing_file_(different_file_and_rank)", 100), ("labels_needing_file_(same_rank)", 100), ("labels_needing_rank", 100), ("labels_needing_square", 20), ("listings_through_one_game_compared", 300)])
}

// ======================================================================================= C19

fn c19_case(ctx: &Ctx, st: &mut TState, idx: usize, case: &Case) {
    let p = &case.pos;
    let legal = p.legal_moves();
    let mut b = board_for(case, idx, &mut st.local);
    b.set_turn(ecol(p.turn));
    let turn = ecol(p.turn);
    let listed = st.used_gen().generate_moves(&mut b, turn);
    st.local.inc("positions");
    let f = gen::features(p, &legal);
    if f.nontrivial() { st.local.distinct.push(p.key_hash()); }
    let mut texts: std::collections::HashMap<String, MoveKey> = std::collections::HashMap::new();
    for m in &legal {
        let want = p.uci(m);
        let em = match listed.iter().find(|e| ekey(e) == rkey(m)) { Some(e) => e.clone(), None => engine_move(m, p.turn) };
        let got = match par::guarded(|| em.to_uci()) { Ok(s) => s, Err(msg) => { ctx.violation(&format!("c19:panic:{}", par::last_panic_location()), &format!("to_uci panicked: {}", msg), case.json()); continue; } };
        st.local.inc("texts_compared");
        st.local.inc_dyn(&format!("rendered_{}_{}", if p.turn == Col::W { "white" } else { "black" }, kind_name(m)));
        if got != want {
            let mut r = case.json(); r["move"] = json!(key_str(&rkey(m))); r["engine_text"] = json!(got); r["standard_text"] = json!(want);
            ctx.violation(&format!("c19:text:{}", kind_name(m)), &format!("{} in {} rendered {:?}, standard coordinate text is {:?}", key_str(&rkey(m)), p.to_fen(), got, want), r);
        }
        if let Some(prev) = texts.insert(got.clone(), rkey(m)) {
            if prev != rkey(m) { ctx.violation("c19:duplicate-text", &format!("two moves of {} render as {:?}", p.to_fen(), got), case.json()); }
        }
        // round trip through the parser used for the external engine's replies
        let parsed = par::guarded(|| chess::game::stockfish_elo::verif_create_chess_move_from_uci(&got, &b));
        st.local.inc("round_trips");
        match parsed {
            Err(msg) => { let mut r = case.json(); r["text"] = json!(got); ctx.violation(&format!("c19:parse-panic:{}", kind_name(m)), &format!("reading {:?} back in {} panicked: {}", got, p.to_fen(), msg), r); }
            Ok(pm) => {
                let mut same = ekey(&pm) == ekey(&em);
                let (mut b1, mut b2) = (b.clone(), b.clone());
                let r1 = em.apply(&mut b1); let r2 = par::guarded(|| pm.apply(&mut b2));
                let same_effect = matches!((&r1, &r2), (Ok(()), Ok(Ok(())))) && Snapshot::take(&b1) == Snapshot::take(&b2);
                if !same_effect { same = false; }
                if !same {
                    let mut r = case.json(); r["text"] = json!(got); r["rendered_move"] = json!(key_str(&ekey(&em))); r["parsed_move"] = json!(key_str(&ekey(&pm)));
                    ctx.violation(&format!("c19:round-trip:{}", kind_name(m)), &format!("{:?} read back in {} gives {} instead of {}", got, p.to_fen(), key_str(&ekey(&pm)), key_str(&ekey(&em))), r);
                }
            }
        }
    }
    if idx % 801 == 0 { ctx.sample(json!({"fen": p.to_fen(), "texts": legal.iter().map(|m| p.uci(m)).collect::<Vec<_>>() })); }
}

pub fn c19(o: &Opts) -> i32 {
    let ctx = default_ctx("C19", o, 40.0, 400.0);
    if let Some(path) = &o.replay {
        let case = case_from_replay(&load_replay(path));
        let mut st = TState::new();
        c19_case(&ctx, &mut st, 0, &case); c19_case(&ctx, &mut st, 1, &case);
        st.local.flush(&ctx);
        return ctx.finish(2, "replay of one recorded case", &[], &[]);
    }
    let q = ctx.quick();
    let spec = PoolSpec { walk_depth: if q { 2 } else { 3 }, walk_cap_per_root: if q { 200 } else { 5000 }, setups: if q { 12000 } else { 200000 }, endings: 500, games: if q { 30 } else { 400 }, game_plies: 200, game_stride: 1 };
    let mut cases = position_pool(o.seed, &spec);
    shuffle_tail(&mut cases, gen::corpus().len(), o.seed);
    run_pool(&ctx, &cases, 0.97, c19_case);
    let mut gates: Vec<(String, u64)> = vec![];
    for col in ["white", "black"] { for k in ["en_passant", "castle_kingside", "castle_queenside", "promotion_q", "promotion_r", "promotion_b", "promotion_n", "promotion_capture_q", "promotion_capture_r", "promotion_capture_b", "promotion_capture_n", "double_step", "capture", "quiet"] { gates.push((format!("rendered_{}_{}", col, k), 1)); } }
    let g2: Vec<(&str, u64)> = gates.iter().map(|(a, b)| (a.as_str(), *b)).collect();
    ctx.finish(ctx.counter("texts_compared") + ctx.counter("round_trips"),
        "every legal move of every pool position: to_uci() vs the reference coordinate text, pairwise distinct texts per position, and the text read back by the Stockfish-reply parser (cfg-exposed) must give a move of the same kind/from/to/promotion/capture whose application yields an identical board snapshot. distinct_nontrivial = distinct positions with a special feature",
        &["board.turn() is set to the side to move, as in the Stockfish bridge"],
        &g2)
}

// ======================================================================================= C18

struct MateProbe { white_mated: Vec<i64>, black_mated: Vec<i64> }

fn probe_mates(ctx: &Ctx) -> MateProbe {
    // canonical mates: back-rank mates for either colour
    let wm = Pos::from_fen("7k/8/8/8/8/8/5PPP/r5K1 w - - 0 1").unwrap();
    let bm = wm.twin_mirror();
    assert!(wm.status() == Status::Checkmate && bm.status() == Status::Checkmate);
    let mut out = MateProbe { white_mated: vec![], black_mated: vec![] };
    for (p, v) in [(&wm, &mut out.white_mated), (&bm, &mut out.black_mated)] {
        let mut g = MoveGenerator::new();
        for r in 0..=255u8 {
            let mut b = to_engine(p);
            match par::guarded(|| evaluate::score(&mut b, &mut g, ecol(p.turn), r)) {
                Ok(s) => v.push(s as i64),
                Err(msg) => { ctx.violation(&format!("c18:panic:{}", par::last_panic_location()), &format!("score() of a mate with remaining depth {} panicked: {}", r, msg), json!({"fen": p.to_fen(), "remaining_depth": r})); v.push(0); }
            }
        }
    }
    out
}

fn c18_case(ctx: &Ctx, st: &mut TState, idx: usize, case: &Case, min_mate: i64) {
    let mut p = case.pos.clone();
    p.rights = 0; // a rotation does not map castling to castling
    let twin = p.twin_rot180();
    if !twin.is_consistent() { st.local.inc("twin_not_consistent_skipped"); return; }
    let (b1, b2) = (to_engine(&p), to_engine(&twin));
    let (m1, m2) = match (par::guarded(|| evaluate::board_material_score(&b1)), par::guarded(|| evaluate::board_material_score(&b2))) {
        (Ok(a), Ok(b)) => (a as i64, b as i64),
        _ => { ctx.violation(&format!("c18:panic:{}", par::last_panic_location()), &format!("board_material_score panicked on {} or its twin", p.to_fen()), case.json()); return; }
    };
    st.local.inc("static_pairs_compared");
    if m1 != 0 { st.local.distinct.push(p.key_hash()); }
    if m1 != -m2 {
        let mut r = case.json(); r["fen_used"] = json!(p.to_fen()); r["twin"] = json!(twin.to_fen()); r["score"] = json!(m1); r["twin_score"] = json!(m2);
        ctx.violation("c18:static-asymmetry", &format!("static score {} of {} is not the negative of {} for its colour-swapped rotation {}", m1, p.to_fen(), m2, twin.to_fen()), r);
    }
    let status = p.status();
    if status == Status::Ongoing && m1.abs() >= min_mate {
        ctx.violation("c18:static-reaches-mate-range", &format!("static score {} of the non-terminal {} reaches the mate range (smallest mate magnitude {})", m1, p.to_fen(), min_mate), case.json());
    }
    st.local.set_max_abs(m1.abs() as u64);
    // full score() on the pair (terminal handling included)
    if idx % 3 == 0 || status != Status::Ongoing {
        let r = (idx % 7) as u8 * 37;
        let (mut c1, mut c2) = (b1.clone(), b2.clone());
        let s1 = par::guarded(|| evaluate::score(&mut c1, st.used_gen(), ecol(p.turn), r));
        let s2 = par::guarded(|| evaluate::score(&mut c2, st.used_gen(), ecol(twin.turn), r));
        match (s1, s2) {
            (Ok(a), Ok(b)) => {
                st.local.inc("score_pairs_compared");
                let (mut a, mut b) = (a as i64, b as i64);
                if a != -b && status != Status::Checkmate {
                    // re-ask brand-new generators before blaming the evaluation
                    let (mut d1, mut d2) = (to_engine(&p), to_engine(&twin));
                    a = evaluate::score(&mut d1, &mut MoveGenerator::new(), ecol(p.turn), r) as i64;
                    b = evaluate::score(&mut d2, &mut MoveGenerator::new(), ecol(twin.turn), r) as i64;
                    st.local.inc("score_mismatch_reasked_fresh");
                }
                // mate scores are allowed their built-in one-point asymmetry only if the engine defines them so; the property demands exact negation for non-terminal scores and sign symmetry for mates
                if status == Status::Checkmate {
                    st.local.inc("mate_pairs_compared");
                    if a.signum() != -b.signum() || a == 0 { ctx.violation("c18:mate-sign", &format!("mate scores {} / {} of {} and its twin do not have opposite signs", a, b, p.to_fen()), case.json()); }
                } else if a != -b {
                    let mut rj = case.json(); rj["fen_used"] = json!(p.to_fen()); rj["twin"] = json!(twin.to_fen()); rj["remaining_depth"] = json!(r);
                    ctx.violation(if status == Status::Stalemate { "c18:stalemate-score" } else { "c18:score-asymmetry" }, &format!("score() = {} for {} but {} for its colour-swapped rotation", a, p.to_fen(), b), rj);
                }
                if status == Status::Stalemate { st.local.inc("stalemates_scored"); if a != 0 { ctx.violation("c18:stalemate-nonzero", &format!("stalemate {} scores {}", p.to_fen(), a), case.json()); } }
            }
            _ => ctx.violation(&format!("c18:panic:{}", par::last_panic_location()), &format!("score() panicked on {} or its twin", p.to_fen()), case.json()),
        }
    }
    if idx % 907 == 0 { ctx.sample(json!({"fen": p.to_fen(), "twin": twin.to_fen(), "static": m1, "twin_static": m2})); }
}

pub fn c18(o: &Opts) -> i32 {
    let ctx = default_ctx("C18", o, 40.0, 400.0);
    let probe = probe_mates(&ctx);
    // monotonicity and range of mate scores over remaining depth 0..=255
    for r in 0..255usize {
        if !(probe.white_mated[r + 1] < probe.white_mated[r]) { ctx.violation("c18:mate-not-monotone-white-mated", &format!("white mated: score with remaining depth {} is {} but with {} it is {}", r, probe.white_mated[r], r + 1, probe.white_mated[r + 1]), json!({"remaining_depth": r})); }
        if !(probe.black_mated[r + 1] > probe.black_mated[r]) { ctx.violation("c18:mate-not-monotone-black-mated", &format!("black mated: score with remaining depth {} is {} but with {} it is {}", r, probe.black_mated[r], r + 1, probe.black_mated[r + 1]), json!({"remaining_depth": r})); }
    }
    if probe.white_mated.iter().any(|s| *s >= 0) || probe.black_mated.iter().any(|s| *s <= 0) { ctx.violation("c18:mate-sign", "a mate score has the wrong sign", json!({})); }
    ctx.count("mate_scores_probed", 512);
    let min_mate = probe.white_mated.iter().chain(probe.black_mated.iter()).map(|s| s.abs()).min().unwrap_or(0);
    ctx.set_extra("smallest_mate_magnitude", json!(min_mate));
    if let Some(path) = &o.replay {
        let case = case_from_replay(&load_replay(path));
        let mut st = TState::new();
        c18_case(&ctx, &mut st, 0, &case, min_mate);
        st.local.flush(&ctx);
        return ctx.finish(2, "replay of one recorded case", &[], &[]);
    }
    // every (piece, colour, square) singly: each table entry is hit, in both game phases' tables where reachable
    let mut singles = 0u64;
    for c in [Col::W, Col::B] { for pc in [Pc::P, Pc::N, Pc::B, Pc::R, Pc::Q, Pc::K] { for s in 0..64u8 {
        if pc == Pc::P && (s < 8 || s >= 56) { continue; }
        for extra_queens in [false, true] {
            let mut p = Pos::empty(); p.sq[s as usize] = Some((c, pc));
            if extra_queens { // middlegame tables: give both sides a queen and two rooks somewhere else
                let mut free: Vec<u8> = (0..64u8).filter(|x| *x != s).collect();
                let mut r = Rng::new(s as u64 * 31 + pc as u64); r.shuffle(&mut free);
                let mut it = free.into_iter();
                for col in [Col::W, Col::B] { for q in [Pc::Q, Pc::R, Pc::R] { p.sq[it.next().unwrap() as usize] = Some((col, q)); } }
            }
            let t = p.twin_rot180();
            let (a, b) = (evaluate::board_material_score(&to_engine(&p)) as i64, evaluate::board_material_score(&to_engine(&t)) as i64);
            singles += 1;
            if a != -b { ctx.violation("c18:static-asymmetry", &format!("single {:?} {:?} on {}: {} vs {} for the rotated twin", c, pc, sq_name(s), a, b), json!({"fen": p.to_fen(), "twin": t.to_fen()})); }
        }
    } } }
    ctx.count("single_piece_boards_compared", singles);
    let q = ctx.quick();
    let spec = PoolSpec { walk_depth: if q { 2 } else { 3 }, walk_cap_per_root: if q { 150 } else { 3000 }, setups: if q { 60000 } else { 400000 }, endings: if q { 6000 } else { 40000 }, games: if q { 80 } else { 500 }, game_plies: 160, game_stride: 1 };
    let mut cases = position_pool(o.seed, &spec);
    let mut r = Rng::new(o.seed).fork(tag("c18-extreme"));
    for _ in 0..if q { 20000 } else { 100000 } { cases.push(Case::setup(gen::random_setup_profile(&mut r, 4), "material-extreme-setup")); }
    for fen in ["7k/8/QQQ5/QQQ5/QQQ5/8/8/K7 w - - 0 1", "k7/8/8/8/8/5qqq/5qqq/K4qqq b - - 0 1", "QQQQQQQQ/Q7/8/8/8/8/k7/7K w - - 0 1", "RNBQKBNR/QQQQQQQQ/8/8/8/8/8/k7 w - - 0 1"] {
        if let Ok(p) = Pos::from_fen(fen) { if p.is_consistent() { cases.push(Case::setup(p, "nine-queens")); } }
    }
    // positions evaluated in game order on one thread vs the same positions evaluated on brand-new threads
    {
        let mut gr = Rng::new(o.seed).fork(tag("c18-sequence"));
        for g in 0..if q { 60 } else { 600 } {
            let root = match g % 3 { 0 => gen::random_setup_profile(&mut gr, 3), 1 => Pos::start(), _ => gen::random_ending(&mut gr) };
            let path = gen::random_game(&root, &mut gr, Policy::Special, 60);
            let mut seq: Vec<Pos> = vec![root.clone()];
            let mut p = root.clone();
            for m in &path { p = p.make(m); seq.push(p.clone()); }
            let in_order: Vec<i64> = seq.iter().map(|x| evaluate::board_material_score(&to_engine(x)) as i64).collect();
            // every 4th position (and every position right after a promotion or a queen capture) on a fresh thread
            for (i, x) in seq.iter().enumerate() {
                let phase_change = i > 0 && (matches!(path[i - 1].kind, Kind::Promo(_) | Kind::PromoCapture(_)) || path[i - 1].captured == Some(Pc::Q));
                if !(phase_change || i % 4 == 0) { continue; }
                let x2 = x.twin_rot180();
                let fresh = std::thread::spawn(move || -(evaluate::board_material_score(&to_engine(&x2)) as i64)).join().unwrap_or(i64::MIN);
                ctx.count("in_sequence_vs_fresh_thread_evaluations", 1);
                if phase_change { ctx.count("evaluations_right_after_a_promotion_or_queen_capture", 1); }
                if fresh != in_order[i] {
                    ctx.violation("c18:static-asymmetry:history-dependent", &format!("static score of {} is {} when evaluated after the preceding positions of its game on the same thread; its colour-swapped rotation evaluated on a brand-new thread scores {} (should be the exact negative)", x.to_fen(), in_order[i], -fresh), json!({"root_fen": root.to_fen(), "path": path_str(&root, &path[..i]), "fen": x.to_fen()}));
                    break;
                }
            }
        }
    }
    let mut rt = Rng::new(o.seed).fork(tag("c18-terminal"));
    for p in gen::terminal_with_pieces(&mut rt, if q { 150_000 } else { 1_500_000 }, true) { ctx.count("stalemates_where_the_stalemated_side_has_pieces", 1); cases.push(Case::setup(p, "stalemate-with-pieces")); }
    shuffle_tail(&mut cases, 0, o.seed);
    run_pool(&ctx, &cases, 0.97, |ctx, st, i, c| c18_case(ctx, st, i, c, min_mate));
    ctx.finish(ctx.counter("static_pairs_compared") + ctx.counter("score_pairs_compared") + singles + 512,
        "metamorphic: each position (castling rights dropped) vs its colour-swapped 180-degree rotation: board_material_score must negate exactly, score() must negate exactly for non-mates and flip sign for mates; every (piece, colour, square) alone and amid queens/rooks (both table phases); material-extreme set-ups up to nine queens; mate scores read black-box for remaining depth 0..255 must be strictly monotone and every non-terminal static score must stay below the smallest mate magnitude; stalemate must score 0. distinct_nontrivial = distinct positions with a non-zero static score",
        &["overflow checks are on in the harness build, so an i16 overflow is a caught panic"],
        &[("static_pairs_compared", if q { 5000 } else { 100000 }), ("stalemates_scored", 5), ("mate_pairs_compared", 20), ("stalemates_where_the_stalemated_side_has_pieces", 10)])
}
