//! C16 (move counters and the fifty-move draw) and C17 (repetition accounting).

use super::*;
use crate::bridge::*;
use crate::out::Local;
use crate::par;
use crate::snap::Snapshot;
use chess::board::Board;
use chess::evaluate::{self, GameEnding};
use chess::game::game::Game;
use chess::move_generator::MoveGenerator;
use serde_json::json;
use std::collections::HashMap;

fn is_draw(e: &Option<GameEnding>) -> bool { matches!(e, Some(GameEnding::Draw)) }

/// A long legal game whose half-move clock is reset now and then (so it can run for hundreds of
/// plies without the reference clock exceeding `cap`), preferring quiet piece moves otherwise.
fn long_game(root: &Pos, rng: &mut Rng, plies: usize, cap: u32) -> Vec<Mv> {
    let mut p = root.clone();
    let mut path = vec![];
    let mut reset_at = 30 + rng.below(cap as usize - 30) as u32;
    for _ in 0..plies {
        let legal = p.legal_moves();
        if legal.is_empty() { break; }
        let resetting: Vec<&Mv> = legal.iter().filter(|m| m.piece == Pc::P || m.captured.is_some()).collect();
        let quiet: Vec<&Mv> = legal.iter().filter(|m| m.piece != Pc::P && m.captured.is_none()).collect();
        let m = if p.halfmove >= reset_at && !resetting.is_empty() {
            reset_at = 30 + rng.below(cap as usize - 30) as u32;
            // prefer a single pawn step (keeps material and future resets)
            let steps: Vec<&&Mv> = resetting.iter().filter(|m| m.piece == Pc::P && m.captured.is_none() && m.kind == Kind::Quiet).collect();
            if !steps.is_empty() && rng.chance(0.8) { ***rng.pick(&steps) } else { **rng.pick(&resetting) }
        } else if !quiet.is_empty() && rng.chance(0.97) { **rng.pick(&quiet) } else { *rng.pick(&legal) };
        path.push(m);
        p = p.make(&m);
    }
    path
}

fn c16_game(ctx: &Ctx, l: &mut Local, root: &Pos, path: &[Mv], seed: u64, tagname: &str) {
    let mut rng = Rng::new(seed);
    let mut b = to_engine(root);
    // every fourth game leaves the board's turn flag alone for the whole game: making a move must not depend on it
    let never_toggle = seed % 4 == 3;
    if never_toggle { l.inc("games_played_without_ever_toggling_the_turn_flag"); }
    let mut g = MoveGenerator::new();
    let mut p = root.clone(); p.halfmove = 0;
    let base_counter = b.fullmove_clock() as u64;
    let mut made: u64 = 0;
    let mut stack: Vec<(Pos, chess::chess_move::chess_move::ChessMove)> = vec![];
    let replay = |k: usize| json!({"root_fen": root.to_fen(), "path": path_str(root, &path[..k]), "game": tagname});
    let mut i = 0usize;
    let mut detours = 0;
    while i < path.len() {
        let m = path[i];
        let em = engine_move(&m, p.turn);
        let r = par::guarded(|| em.apply(&mut b));
        match r {
            Err(msg) => { ctx.violation(&format!("c16:counter-overflow:{}", par::last_panic_location()), &format!("making ply {} of a legal game ({}) panicked: {}", i + 1, tagname, msg), replay(i + 1)); return; }
            Ok(Err(_)) => { l.inc("apply_failed_(C03_business)"); return; }
            Ok(Ok(())) => {}
        }
        if !never_toggle { b.toggle_turn(); }
        stack.push((p.clone(), em));
        p = p.make(&m); made += 1; i += 1;
        l.inc("plies_tracked");
        let kind = match m.kind { Kind::EnPassant => "en_passant", Kind::CastleK | Kind::CastleQ => "castle", Kind::Promo(_) | Kind::PromoCapture(_) => "promotion", _ if m.captured.is_some() => "capture", _ if m.piece == Pc::P => "pawn_move", _ => "quiet_piece_move" };
        l.inc_dyn(&format!("tracked_{}", kind));
        let (eh, ef) = (b.halfmove_clock() as u64, b.fullmove_clock() as u64);
        l.set_max("highest_halfmove_clock_seen", p.halfmove as u64);
        l.set_max("highest_move_counter_seen", base_counter + made);
        if eh != p.halfmove as u64 {
            ctx.violation(&format!("c16:halfmove-clock-wrong-after:{}", kind), &format!("after ply {} ({}, {}) of {} the half-move clock reads {}; plies since the last capture or pawn move: {}", i, p.uci_prev(&stack.last().unwrap().0, &m), kind, tagname, eh, p.halfmove), replay(i));
            return;
        }
        if ef != base_counter + made {
            ctx.violation("c16:move-counter-wrong", &format!("after {} plies made (net of undos) the move counter reads {} instead of {}", made, ef, base_counter + made), replay(i));
            return;
        }
        // move-count draw: exactly from clock 100 on
        if !p.legal_moves().is_empty() && (b.max_seen_position_count() as u64) < 3 {
            let e = par::guarded(|| evaluate::game_ending(&mut b, &mut g, ecol(p.turn)));
            l.inc("draw_verdicts_compared");
            match e {
                Err(msg) => { ctx.violation(&format!("c16:panic:{}", par::last_panic_location()), &format!("game_ending panicked: {}", msg), replay(i)); return; }
                Ok(e) => {
                    if p.halfmove >= 100 { l.inc("verdicts_at_or_beyond_100"); } else if p.halfmove >= 50 { l.inc("verdicts_between_50_and_99"); }
                    if is_draw(&e) && p.halfmove < 100 { ctx.violation("c16:draw-reported-before-100", &format!("game reported drawn on move count with the half-move clock at {} (< 100) in {}", p.halfmove, tagname), replay(i)); }
                    if !is_draw(&e) && p.halfmove >= 100 { ctx.violation("c16:draw-not-reported-at-100", &format!("half-move clock {} (>= 100) but game_ending says {:?}", p.halfmove, e), replay(i)); }
                }
            }
        }
        // interleaved undo: take back 1-3 plies and replay them
        if rng.below(37) == 0 && stack.len() >= 3 && detours < 20 {
            detours += 1;
            let k = 1 + rng.below(3);
            for _ in 0..k {
                let (prev, em) = stack.pop().unwrap();
                if !never_toggle { b.toggle_turn(); }
                if let Err(msg) = par::guarded(|| em.undo(&mut b)) { ctx.violation(&format!("c16:counter-overflow:{}", par::last_panic_location()), &format!("undo panicked: {}", msg), replay(i)); return; }
                p = prev; made -= 1; i -= 1;
                l.inc("undos_tracked");
                if b.halfmove_clock() as u64 != p.halfmove as u64 || b.fullmove_clock() as u64 != base_counter + made {
                    ctx.violation("c16:counters-wrong-after-undo", &format!("after undoing back to ply {} the clocks read half-move {} / counter {}; expected {} / {}", i, b.halfmove_clock(), b.fullmove_clock(), p.halfmove, base_counter + made), replay(i));
                    return;
                }
            }
        }
    }
    // take the whole game back, clocks compared at every level
    while let Some((prev, em)) = stack.pop() {
        if !never_toggle { b.toggle_turn(); }
        if let Err(msg) = par::guarded(|| em.undo(&mut b)) { ctx.violation(&format!("c16:counter-overflow:{}", par::last_panic_location()), &format!("undoing ply {} of {} panicked: {}", i, tagname, msg), replay(i)); return; }
        p = prev; made -= 1; i -= 1;
        l.inc("undos_tracked");
        let hc = par::guarded(|| (b.halfmove_clock() as u64, b.fullmove_clock() as u64));
        match hc {
            Err(msg) => { ctx.violation(&format!("c16:counter-overflow:{}", par::last_panic_location()), &format!("reading the clocks after undoing back to ply {} of {} panicked: {}", i, tagname, msg), replay(i)); return; }
            Ok((eh, ef)) => if eh != p.halfmove as u64 || ef != base_counter + made {
                ctx.violation("c16:counters-wrong-after-undo", &format!("after undoing back to ply {} of {} the clocks read half-move {} / counter {}; expected {} / {}", i, tagname, eh, ef, p.halfmove, base_counter + made), replay(i));
                return;
            }
        }
    }
    l.inc("games_unwound_completely");
    l.inc("games_tracked");
    l.set_max("longest_game_plies", path.len() as u64);
    if path.len() >= 2 { l.distinct.push(hash_bytes(path_str(root, path).join(" ").as_bytes())); }
}

trait UciPrev { fn uci_prev(&self, prev: &Pos, m: &Mv) -> String; }
impl UciPrev for Pos { fn uci_prev(&self, prev: &Pos, m: &Mv) -> String { prev.uci(m) } }

/// Direct probes of the threshold: clock placed through the board-editing API, then one real move.
fn c16_threshold_probes(ctx: &Ctx, l: &mut Local) {
    let probes: [(&str, &str, &str); 5] = [
        ("4k3/8/8/8/8/8/4P3/R3K2R w KQ - 0 1", "a1b1", "quiet"),
        ("4k3/8/8/8/8/8/4P3/R3K2R w KQ - 0 1", "e2e3", "pawn_move"),
        ("4k3/8/8/8/8/8/r3P3/R3K2R w KQ - 0 1", "a1a2", "capture"),
        ("4k3/8/8/8/8/8/4P3/R3K2R w KQ - 0 1", "e1g1", "castle"),
        ("4k3/8/8/3pP3/8/8/8/4K3 w - d6 0 1", "e5d6", "en_passant"),
    ];
    for (fen, uci, kind) in probes {
        for start in [0u32, 48, 49, 50, 98, 99, 100, 101, 149] {
            let p0 = Pos::from_fen(fen).unwrap();
            let legal = p0.legal_moves();
            let m = legal.iter().find(|m| p0.uci(m) == uci).expect("probe move");
            let mut b = to_engine(&p0);
            b.push_halfmove_clock(start as _);
            let mut g = MoveGenerator::new();
            // verdict at the placed clock
            let e0 = match par::guarded(|| evaluate::game_ending(&mut b, &mut g, ecol(p0.turn))) { Ok(e) => e, Err(msg) => { ctx.violation(&format!("c16:panic:{}", par::last_panic_location()), &format!("game_ending with the half-move clock placed at {} panicked: {}", start, msg), json!({"fen": fen, "clock": start})); continue; } };
            l.inc("threshold_probes");
            if is_draw(&e0) != (start >= 100) { ctx.violation(if start < 100 { "c16:draw-reported-before-100" } else { "c16:draw-not-reported-at-100" }, &format!("with the half-move clock placed at {} game_ending says {:?}", start, e0), json!({"fen": fen, "clock": start})); }
            let em = engine_move(m, p0.turn);
            if let Err(msg) = par::guarded(|| em.apply(&mut b)) { ctx.violation(&format!("c16:counter-overflow:{}", par::last_panic_location()), &format!("{} with the clock at {} panicked: {}", kind, start, msg), json!({"fen": fen, "clock": start, "move": uci})); continue; }
            let want = if kind == "quiet" || kind == "castle" { start + 1 } else { 0 };
            let got = b.halfmove_clock() as u64;
            if got != want as u64 { ctx.violation(&format!("c16:halfmove-clock-wrong-after:{}", if kind == "quiet" { "quiet_piece_move" } else { kind }), &format!("clock {} then a {} ({}): clock reads {}, expected {}", start, kind, uci, got, want), json!({"fen": fen, "clock": start, "move": uci})); }
            b.toggle_turn();
            let n = p0.make(m);
            if !n.legal_moves().is_empty() {
                let e1 = match par::guarded(|| evaluate::game_ending(&mut b, &mut g, ecol(n.turn))) { Ok(e) => e, Err(msg) => { ctx.violation(&format!("c16:panic:{}", par::last_panic_location()), &format!("game_ending with the half-move clock at {} panicked: {}", want, msg), json!({"fen": fen, "clock": start, "move": uci})); continue; } };
                if is_draw(&e1) != (want >= 100) { ctx.violation(if want < 100 { "c16:draw-reported-before-100" } else { "c16:draw-not-reported-at-100" }, &format!("clock {} after a {}: game_ending says {:?}", want, kind, e1), json!({"fen": fen, "clock": start, "move": uci})); }
            }
        }
    }
}

pub fn c16(o: &Opts) -> i32 {
    let ctx = default_ctx("C16", o, 40.0, 400.0);
    let q = ctx.quick();
    let mut l0 = Local::default();
    c16_threshold_probes(&ctx, &mut l0);
    l0.flush(&ctx);
    let mut r = Rng::new(o.seed).fork(tag("c16"));
    let mut units: Vec<(Pos, Vec<Mv>, u64, String)> = vec![];
    if let Some(path) = &o.replay {
        let case = case_from_replay(&load_replay(path));
        units.push((case.root, case.path, 1, "replay".into()));
    } else {
        let kn = Pos::from_fen("8/8/4k3/3Nn3/3nN3/4K3/8/8 w - - 0 1").unwrap();
        let pawny = Pos::from_fen("4k3/pppppppp/8/8/8/8/PPPPPPPP/4K3 w - - 0 1").unwrap();
        let rooks = Pos::from_fen("r3k2r/pppp1ppp/8/8/8/8/PPPP1PPP/R3K2R w KQkq - 0 1").unwrap();
        for i in 0..if q { 160 } else { 1600 } {
            let (root, cap, plies, t) = match i % 4 {
                0 => (Pos::start(), 95u32, 300 + r.below(320), "long game from the initial position, clock kept below 95"),
                1 => (pawny.clone(), 130, 300 + r.below(300), "pawn-rich game, clock allowed up to 130"),
                2 => (kn.clone(), 160, 170, "K+N+N v K+N+N shuffle, no resets available"),
                _ => (rooks.clone(), 110, 280 + r.below(100), "castling-rich game, clock allowed up to 110"),
            };
            let mut gr = r.fork(i as u64);
            let path = long_game(&root, &mut gr, plies, cap);
            units.push((root, path, o.seed * 13 + i as u64, t.to_string()));
        }
        for i in 0..if q { 400 } else { 4000 } { let root = if i % 3 == 0 { Pos::start() } else { gen::random_setup(&mut r) }; let path = gen::random_game(&root, &mut r, Policy::Special, 120); units.push((root, path, i, "special-move-seeking game (ep, castling, promotions, captures)".into())); }
    }
    par::for_each(&units, par::threads(), |_i, (root, path, s, t)| { let mut l = Local::default(); c16_game(&ctx, &mut l, root, path, *s, t); l.flush(&ctx); },
        |_i, u, msg| ctx.violation(&format!("c16:panic:{}", par::last_panic_location()), &format!("panic in {}: {}", u.3, msg), json!({"root_fen": u.0.to_fen()})));
    if let Some(u) = units.first() { ctx.sample(json!({"game": u.3, "root_fen": u.0.to_fen(), "plies": u.1.len(), "first_moves": path_str(&u.0, &u.1[..u.1.len().min(16)])})); }
    ctx.sample(json!({"threshold_probe": "half-move clock placed at 0/48/49/50/98/99/100/101/149 through push_halfmove_clock, then a quiet move, pawn move, capture, castle and en-passant capture"}));
    ctx.finish(ctx.counter("plies_tracked") + ctx.counter("undos_tracked") + ctx.counter("threshold_probes"),
        "reference-tracked legal games of 170-620 plies (clock reset now and then by pawn moves/captures so that games run far past ply 256; K+N shuffles with no resets up to clock 160), with interleaved undo/redo; after every ply halfmove_clock() must equal plies since the last capture or pawn move and the move counter must equal its initial value + plies made - plies undone (read with `as u64`); game_ending must report Draw (repetition count < 3, moves available) exactly when the clock is >= 100; plus direct threshold probes on set-up boards. Integer-overflow checks are on, so a wrapping counter is a caught panic. distinct_nontrivial = distinct games tracked",
        &["positions without legal moves are excluded from the draw-threshold comparison"],
        &[("highest_move_counter_seen", 400), ("highest_halfmove_clock_seen", 120), ("verdicts_between_50_and_99", 200), ("verdicts_at_or_beyond_100", 50), ("tracked_pawn_move", 200), ("tracked_castle", 5), ("tracked_en_passant", 2), ("undos_tracked", 50)])
}

// ======================================================================================= C17

fn c17_board_game(ctx: &Ctx, l: &mut Local, root: &Pos, path: &[Mv], seed: u64, tagname: &str) {
    let mut rng = Rng::new(seed);
    let mut rng2 = Rng::new(seed ^ 0x5151);
    let mut b = to_engine(root);
    let mut p = root.clone();
    let mut multiset: HashMap<PosKey, u32> = HashMap::new();
    let replay = |k: usize| json!({"root_fen": root.to_fen(), "path": path_str(root, &path[..k]), "game": tagname});
    // register the initial position
    let mut register = |b: &mut Board, p: &Pos, multiset: &mut HashMap<PosKey, u32>, l: &mut Local, k: usize| -> bool {
        let before = Snapshot::take(b);
        let c = match par::guarded(|| b.count_current_position()) { Ok(c) => c as u64, Err(msg) => { ctx.violation(&format!("c17:panic:{}", par::last_panic_location()), &format!("count_current_position panicked: {}", msg), replay(k)); return false; } };
        let e = multiset.entry(p.key()).or_insert(0); *e += 1;
        let want = *e as u64;
        l.inc("registrations_compared");
        if want >= 2 { l.inc("recurrences_registered"); } if want >= 3 { l.inc("third_occurrences_registered"); }
        // look-alikes: same placement but different side / rights / ep registered before?
        let alike = multiset.iter().filter(|(k2, v)| **v > 0 && k2[..32] == p.key()[..32] && **k2 != p.key()).count();
        if alike > 0 { l.inc("registrations_with_a_look_alike_present"); }
        if c != want || b.max_seen_position_count() as u64 != want {
            let why = if alike > 0 { "look-alike-counted" } else { "count-wrong" };
            ctx.violation(&format!("c17:{}", why), &format!("position {} registered: engine reports count {} (max_seen {}), it has occurred {} time(s){}", p.to_fen(), c, b.max_seen_position_count(), want, if alike > 0 { "; a position with the same placement but another side to move / rights / ep target was registered earlier" } else { "" }), replay(k));
            return false;
        }
        // unregistering must be the exact inverse (sampled)
        if rng2.below(5) == 0 {
            b.uncount_current_position();
            l.inc("unregistrations_checked");
            if let Some(d) = before.diff(&Snapshot::take(b)) { ctx.violation("c17:unregister-not-inverse", &format!("count + uncount on {} does not restore the state: {}", p.to_fen(), d), replay(k)); return false; }
            b.count_current_position();
        }
        true
    };
    if !register(&mut b, &p, &mut multiset, l, 0) { return; }
    let mut stack: Vec<(Pos, chess::chess_move::chess_move::ChessMove)> = vec![];
    let mut i = 0;
    let mut detours = 0;
    while i < path.len() {
        let m = path[i];
        let em = engine_move(&m, p.turn);
        if em.apply(&mut b).is_err() { l.inc("apply_failed_(C03_business)"); return; }
        b.toggle_turn();
        stack.push((p.clone(), em)); p = p.make(&m); i += 1;
        if !register(&mut b, &p, &mut multiset, l, i) { return; }
        // interleaved uncount + undo, then replay
        if rng.below(23) == 0 && stack.len() >= 2 && detours < 12 {
            detours += 1;
            let k = 1 + rng.below(2);
            for _ in 0..k {
                b.uncount_current_position();
                *multiset.get_mut(&p.key()).unwrap() -= 1;
                let (prev, em) = stack.pop().unwrap();
                b.toggle_turn(); em.undo(&mut b).ok();
                p = prev; i -= 1;
                l.inc("uncount_undo_steps");
                let want = *multiset.get(&p.key()).unwrap_or(&0) as u64;
                if b.max_seen_position_count() as u64 != want.max(1) && want >= 1 { ctx.violation("c17:count-wrong-after-unregister-and-undo", &format!("after unregister+undo back to {} max_seen reports {}, multiplicity is {}", p.to_fen(), b.max_seen_position_count(), want), replay(i)); return; }
            }
        }
    }
    // unregister and undo everything, newest first: every count on the way back must be the true multiplicity
    let mut k = i;
    while let Some((prev, em)) = stack.pop() {
        match par::guarded(|| b.uncount_current_position()) {
            Err(msg) => { ctx.violation(&format!("c17:panic:{}", par::last_panic_location()), &format!("unregistering {} (ply {} of {}) panicked: {}", p.to_fen(), k, tagname, msg), replay(k)); return; }
            Ok(_) => {}
        }
        *multiset.get_mut(&p.key()).unwrap() -= 1;
        b.toggle_turn(); em.undo(&mut b).ok();
        p = prev; k -= 1;
        l.inc("registrations_taken_back_at_the_end");
        let want = *multiset.get(&p.key()).unwrap_or(&0) as u64;
        let got = b.max_seen_position_count() as u64;
        if want >= 1 && got != want { ctx.violation("c17:count-wrong-after-unregister-and-undo", &format!("after unregistering and undoing back to {} (ply {} of {}) max_seen reports {}, multiplicity is {}", p.to_fen(), k, tagname, got, want), replay(k)); return; }
    }
    // and register the root once more: it must count on from where it was
    let again = b.count_current_position() as u64;
    let want = *multiset.get(&p.key()).unwrap_or(&0) as u64 + 1;
    if again != want { ctx.violation("c17:count-wrong-after-full-take-back", &format!("after taking the whole game back, registering {} again reports {}, expected {}", p.to_fen(), again, want), replay(0)); return; }
    l.inc("board_level_games");
    if path.len() >= 2 { l.distinct.push(hash_bytes(path_str(root, path).join(" ").as_bytes()) ^ seed); }
}

/// The same game through the Game API (coordinate entry + caller-side toggle): a third
/// occurrence must be reported as a draw.
fn c17_game_api(ctx: &Ctx, l: &mut Local, root: &Pos, path: &[Mv], tagname: &str) {
    let hsh = hash_bytes(path_str(root, path).join(" ").as_bytes());
    // every third game lets the engine's own move entry points make some of the moves (search depth 1)
    let engine_plays = hsh % 3 == 0;
    // another third has a front end that takes moves back through the board
    let takeback = hsh % 3 == 1;
    // some front ends only ask for the verdict when they notice a recurrence, not at every ply
    let ask_only_at_recurrences = hsh % 4 == 2;
    let mut rng = Rng::new(hsh);
    let mut game = Game::from_board(to_engine(root), if engine_plays { 1 } else { 0 });
    let mut p = root.clone();
    let mut multiset: HashMap<PosKey, u32> = HashMap::new();
    multiset.insert(p.key(), 1);
    let mut played: Vec<Mv> = vec![];       // the moves currently on the board (after take-backs)
    let mut log: Vec<String> = vec![];      // everything that was done, for the replay file
    let mut on_script = true;               // still following `path`?
    let mut free_play_left = 0usize;        // plies of own choice after a take-back
    let mut i = 0usize;
    let replay = |log: &Vec<String>, played: &Vec<Mv>| json!({"root_fen": root.to_fen(), "path": path_str(root, played), "what_was_done": log, "game": tagname});
    let total = path.len() + 40;
    let mut steps = 0;
    while steps < total {
        steps += 1;
        if p.halfmove >= 45 { break; } // stay clear of any move-count draw
        let legal = p.legal_moves();
        if legal.is_empty() { break; }
        // ---- choose and make the next move
        let pm: Mv;
        if engine_plays && on_script && i % 4 == 1 && i < path.len() {
            let r = par::guarded(|| if i % 8 == 1 { game.make_alpha_beta_best_move() } else { game.make_waterfall_book_then_alpha_beta_move() });
            let mv = match r { Ok(Ok(mv)) => mv, _ => { l.inc("engine_move_failed_(C07/C15_business)"); return; } };
            pm = match legal.iter().find(|x| rkey(x) == ekey(&mv)) { Some(x) => *x, None => { l.inc("engine_move_not_legal_(C07_business)"); return; } };
            l.inc("moves_made_by_the_engine_entry_points");
            log.push(format!("engine entry point played {}", p.uci(&pm)));
            i += 1;
        } else {
            let m: Mv = if free_play_left > 0 {
                free_play_left -= 1;
                // own choice: prefer reversible moves that return to positions seen before
                let mut best: Vec<&Mv> = legal.iter().filter(|x| x.piece != Pc::P && x.captured.is_none() && !matches!(x.kind, Kind::Promo(_) | Kind::PromoCapture(_)) && multiset.get(&p.make(x).key()).copied().unwrap_or(0) > 0).collect();
                if best.is_empty() { best = legal.iter().filter(|x| x.piece != Pc::P && x.captured.is_none()).collect(); }
                if best.is_empty() { break; }
                **rng.pick(&best)
            } else if i < path.len() && legal.contains(&path[i]) { let m = path[i]; i += 1; m } else { break };
            if matches!(m.kind, Kind::Promo(x) | Kind::PromoCapture(x) if x != Pc::Q) { break; } // coordinate entry promotes to a queen
            if !matches!(par::guarded(|| game.apply_chess_move_by_from_to_coordinates(bb(m.from), bb(m.to))), Ok(Ok(_))) { l.inc("game_api_move_rejected_(C14_business)"); return; }
            pm = m;
            log.push(format!("entered {}", p.uci(&pm)));
        }
        game.board_mut().toggle_turn();
        let before = p.clone();
        p = p.make(&pm);
        played.push(pm);
        let e = multiset.entry(p.key()).or_insert(0); *e += 1;
        let n = *e;
        // ---- the game registers every arising position: its reported count must be the true multiplicity
        l.inc("game_api_counts_compared");
        let reported = game.board().max_seen_position_count() as u64;
        if reported != n as u64 {
            ctx.violation(if reported > n as u64 { "c17:game-api-overcounts" } else { "c17:game-api-undercounts" }, &format!("{}: the position {} has occurred {} time(s) in this game but the game's count reads {}", tagname, p.to_fen(), n, reported), replay(&log, &played));
            return;
        }
        // ---- a front end taking the move back: unregister the position (as seen by the side to move) and undo
        if takeback && free_play_left == 0 && rng.below(5) == 0 && played.len() >= 2 {
            let last = game.verif_move_history().last().cloned();
            if let Some(mv) = last {
                let irreversible = pm.piece == Pc::P || pm.captured.is_some();
                let b = game.board_mut();
                b.uncount_current_position();
                b.toggle_turn();
                if mv.undo(b).is_err() { return; }
                *multiset.get_mut(&p.key()).unwrap() -= 1;
                played.pop();
                p = before;
                log.push(format!("took {} back", p.uci(&pm)));
                l.inc("moves_taken_back");
                let back = game.board().max_seen_position_count() as u64;
                let want_prev = *multiset.get(&p.key()).unwrap_or(&0) as u64;
                if back != want_prev { ctx.violation("c17:count-wrong-after-take-back", &format!("{}: after a take-back the game's count for {} reads {}, it has occurred {} time(s)", tagname, p.to_fen(), back, want_prev), replay(&log, &played)); return; }
                // after taking back a capture or pawn move, play something else: earlier positions can recur now
                if irreversible { on_script = false; free_play_left = 14; l.inc("irreversible_moves_taken_back_then_other_play"); } else { i -= if on_script && i > 0 { 1 } else { 0 }; }
                continue;
            }
        }
        if p.legal_moves().is_empty() { break; }
        if ask_only_at_recurrences && n < 2 { continue; }
        if ask_only_at_recurrences { l.inc("verdicts_asked_only_at_recurrences"); }
        let over = par::guarded(|| game.check_game_over_for_current_turn());
        l.inc("game_api_verdicts_compared");
        match over {
            Err(msg) => { ctx.violation(&format!("c17:panic:{}", par::last_panic_location()), &format!("check_game_over_for_current_turn panicked: {}", msg), replay(&log, &played)); return; }
            Ok(e) => {
                if n >= 3 {
                    l.inc("game_api_third_occurrences");
                    if !is_draw(&e) { ctx.violation("c17:game-api-no-draw-at-third-occurrence", &format!("{}: position {} has occurred {} times in a game played through the Game API but the game is not reported drawn ({:?})", tagname, p.to_fen(), n, e), replay(&log, &played)); }
                    return;
                } else if is_draw(&e) {
                    ctx.violation("c17:game-api-draw-before-third-occurrence", &format!("{}: game reported drawn although no position has occurred three times (current position {}x, half-move clock {})", tagname, n, p.halfmove), replay(&log, &played));
                    return;
                }
            }
        }
    }
    l.inc("game_api_games");
}

fn scripted(fen: &str, ucis: &[&str]) -> (Pos, Vec<Mv>) {
    let root = Pos::from_fen(fen).unwrap();
    let path = parse_path(&root, &ucis.iter().map(|s| s.to_string()).collect::<Vec<_>>()).expect("scripted path");
    (root, path)
}

pub fn c17(o: &Opts) -> i32 {
    let ctx = default_ctx("C17", o, 40.0, 400.0);
    let q = ctx.quick();
    let mut r = Rng::new(o.seed).fork(tag("c17"));
    let mut units: Vec<(Pos, Vec<Mv>, u64, String, bool)> = vec![];
    // scripted look-alikes
    let start = "rnbqkbnr/pppppppp/8/8/8/8/PPPPPPPP/RNBQKBNR w KQkq - 0 1";
    let scripts: Vec<(&str, Vec<&str>, &str)> = vec![
        ("4k3/8/8/8/8/8/8/4K3 w - - 0 1", vec!["e1d1", "e8d8", "d1d2", "d8e8", "d2e1"], "king triangle: same placement, other side to move"),
        ("4k3/8/8/8/8/8/8/4K3 w - - 0 1", vec!["e1d1", "e8d8", "d1e1", "d8e8", "e1d1", "e8d8", "d1e1", "d8e8"], "two-move shuffle: true threefold"),
        (start, vec!["g1f3", "g8f6", "f3g1", "f6g8", "g1f3", "g8f6", "f3g1", "f6g8"], "knight shuffle from the initial position: true threefold"),
        ("r3k2r/8/8/8/8/8/8/R3K2R w KQkq - 0 1", vec!["h1g1", "h8g8", "g1h1", "g8h8", "h1g1", "h8g8", "g1h1", "g8h8"], "rook out and back: same placement, castling rights lost"),
        ("4k3/8/8/8/1p6/8/P7/4K3 w - - 0 1", vec!["a2a4", "e8d8", "e1d1", "d8e8", "d1e1"], "double step: same placement with and without the en-passant opportunity"),
        ("4k3/8/8/8/8/8/8/4K2R w K - 0 1", vec!["e1e2", "e8e7", "e2e1", "e7e8", "e1e2", "e8e7", "e2e1", "e7e8"], "king out and back: same placement, right lost at the first step"),
        (start, vec!["e2e3", "e7e6", "g1f3", "g8f6", "f3g1", "f6g8", "g1f3", "g8f6", "f3g1", "f6g8"], "recurring position that arose from a pawn move"),
        ("4k3/8/8/3p4/4P3/8/8/4K1N1 w - - 0 1", vec!["e4d5", "e8d8", "g1f3", "d8e8", "f3g1", "e8d8", "g1f3", "d8e8", "f3g1", "e8d8"], "recurring position that arose right after a capture"),
        ("7k/8/8/8/8/8/8/KR6 w - - 0 1", vec!["b1b2", "h8g8", "b2b3", "g8h8", "b3b1", "h8g8", "b1b2", "g8h8", "b2b3", "h8g8", "b3b1"], "rook triangulation against a two-square king shuffle"),
    ];
    for (fen, ms, t) in &scripts { let (root, path) = scripted(fen, ms); units.push((root.clone(), path.clone(), 7, t.to_string(), false)); units.push((root, path, 7, t.to_string(), true)); }
    if let Some(path) = &o.replay {
        let case = case_from_replay(&load_replay(path));
        units = vec![(case.root.clone(), case.path.clone(), 1, "replay".into(), false), (case.root, case.path, 1, "replay".into(), true)];
    } else {
        for i in 0..if q { 1500 } else { 12000 } {
            let root = if i % 5 == 0 { Pos::start() } else { gen::random_ending(&mut r) };
            let n_plies = 60 + r.below(100);
            let path = gen::random_game(&root, &mut r, Policy::Shuffle, n_plies);
            units.push((root.clone(), path.clone(), o.seed * 3 + i as u64, "shuffling game on sparse material".into(), false));
            if i % 2 == 0 { units.push((root, path, 0, "shuffling game through the Game API".into(), true)); }
        }
    }
    par::for_each(&units, par::threads(), |_i, (root, path, s, t, api)| { let mut l = Local::default(); if *api { c17_game_api(&ctx, &mut l, root, path, t) } else { c17_board_game(&ctx, &mut l, root, path, *s, t) } l.flush(&ctx); },
        |_i, u, msg| ctx.violation(&format!("c17:panic:{}", par::last_panic_location()), &format!("panic in {}: {}", u.3, msg), json!({"root_fen": u.0.to_fen(), "path": path_str(&u.0, &u.1)})));
    for (fen, ms, t) in scripts.iter().take(3) { ctx.sample(json!({"script": t, "root_fen": fen, "moves": ms})); }
    ctx.finish(ctx.counter("registrations_compared") + ctx.counter("game_api_verdicts_compared"),
        "board level: every arising position of scripted look-alike games and seeded shuffling games on sparse material is registered with count_current_position(); the returned count and max_seen_position_count() must equal the multiplicity of the full position (placement, side to move, rights, ep target) in a reference multiset; count+uncount must restore the complete state (hook digest, zero entries ignored); interleaved uncount+undo. Game level: the same games entered through the Game API (coordinate pairs + caller-side toggle) must be reported drawn when a position occurs for the third time and not before (half-move clock kept below 45). distinct_nontrivial = distinct games",
        &["the reference multiset is keyed by the full position"],
        &[("recurrences_registered", 200), ("third_occurrences_registered", 30), ("registrations_with_a_look_alike_present", 10), ("unregistrations_checked", 100), ("game_api_third_occurrences", 5), ("uncount_undo_steps", 20)])
}
