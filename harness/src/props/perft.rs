//! C10: count_positions(d) == sum over k = 1..d+1 of the number of legal sequences of length k,
//! for every pool size and whatever the generator served before; CLI output agrees.

use super::*;
use crate::bridge::*;
use crate::mon;
use crate::par;
use chess::move_generator::MoveGenerator;
use serde_json::json;
use std::sync::Mutex;

/// Reference cumulative count, parallelised over root moves for the deep cases.
fn reference_cum(p: &Pos, d: u32) -> u64 {
    let roots = p.legal_moves();
    if d == 0 { return roots.len() as u64; }
    let total = Mutex::new(roots.len() as u64);
    par::for_each(&roots, par::threads(), |_i, m| { let n = p.make(m).cum_perft(d - 1); *total.lock().unwrap() += n; }, |_, _, _| {});
    let t = *total.lock().unwrap();
    t
}

fn engine_count(g: &mut MoveGenerator, p: &Pos, d: u32, pool: usize) -> Result<u64, String> {
    let mut b = to_engine(p);
    let side = ecol(p.turn);
    // every other call leaves the board's turn flag on the other colour: the side is an explicit argument
    // (the engine's own counting never toggles the flag)
    if (p.key_hash() ^ d as u64 ^ pool as u64) & 1 == 1 { b.set_turn(side.opposite()); }
    let before = crate::snap::Snapshot::take(&b);
    let tp = rayon::ThreadPoolBuilder::new().num_threads(pool).build().map_err(|e| e.to_string())?;
    let r = par::guarded(|| tp.install(|| g.count_positions(d as u8, &mut b, side) as u64));
    if let Ok(_) = &r { if crate::snap::Snapshot::take(&b) != before { return Err("count_positions changed the caller's board".into()); } }
    r
}

pub fn c10(o: &Opts) -> i32 {
    let ctx = default_ctx("C10", o, 100.0, 900.0);
    if let Some(part) = &o.part {
        // child-process mode for deep counts: "deep|<fen>|<depth>|<pool>"
        let f: Vec<&str> = part.split('|').collect();
        if f.len() == 4 && f[0] == "deep" {
            let p = Pos::from_fen(f[1]).unwrap();
            let d: u32 = f[2].parse().unwrap(); let pool: usize = f[3].parse().unwrap();
            match engine_count(&mut MoveGenerator::new(), &p, d, pool) { Ok(n) => { println!("COUNT {}", n); return 0; } Err(e) => { println!("ERROR {}", e); return 3; } }
        }
        return 2;
    }
    let q = ctx.quick();
    let corpus = gen::corpus();
    let mut r = Rng::new(o.seed).fork(tag("c10"));
    // (position, max depth)
    let mut targets: Vec<(Pos, u32, String)> = vec![];
    targets.push((Pos::start(), 4, "start".into()));
    for (i, (p, t)) in corpus.iter().enumerate().skip(1) {
        let heavy = p.piece_count() > 20;
        if i < 12 { targets.push((p.clone(), if heavy { if q { 2 } else { 3 } } else { 3 }, t.clone())); }
        else if q { if i % 9 == 0 { targets.push((p.clone(), 2, t.clone())); } }
        else { targets.push((p.clone(), if heavy { 3 } else { 4 }, t.clone())); }
    }
    for _ in 0..if q { 10 } else { 120 } { let p = gen::random_setup(&mut r); let d = if p.piece_count() > 14 { 2 } else { 3 }; targets.push((p, d, "random set-up".into())); }
    // roots one of whose moves mates or stalemates (a branch that ends at once next to branches that go on)
    { let mut found = 0; let mut tries = 0; while found < if q { 9 } else { 60 } && tries < 20000 { tries += 1; let p = gen::random_ending(&mut r); let ms = p.legal_moves(); if ms.len() >= 3 && ms.len() <= 24 && ms.iter().any(|m| p.make(m).legal_moves().is_empty()) { found += 1; targets.insert(1 + (found * 2).min(targets.len() - 1), (p, 3, "root with a game-ending move".into())); } } ctx.count("roots_with_a_game_ending_move", found as u64); }
    if let Some(path) = &o.replay {
        let v = load_replay(path);
        let p = Pos::from_fen(v["fen"].as_str().unwrap_or("")).unwrap();
        targets = vec![(p, v["depth"].as_u64().unwrap_or(1) as u32, "replay".into())];
    }
    let pools = [1usize, 2, 3, 5, 8, 16];
    // a generator reused across depths and positions, as run_count_positions does
    let mut used = MoveGenerator::new();
    let mut evaluations = 0u64;
    // sparse positions to depth 5: the same position recurs at different remaining depths inside one subtree
    if o.replay.is_none() {
        let mut sparse: Vec<(Pos, u32)> = ["8/8/8/8/3K4/8/8/k7 w - - 0 1", "8/8/4k3/8/8/2K5/8/8 w - - 0 1", "8/8/8/3k4/8/3K4/3P4/8 w - - 0 1", "8/3p4/3k4/8/8/3K4/3P4/8 b - - 0 1"].iter().map(|f| (Pos::from_fen(f).unwrap(), 5u32)).collect();
        // pawn endings without any slider in which promotions fall inside the horizon (the first sliders appear deep in the tree)
        for f in ["4k3/P6P/8/8/8/8/p6p/4K3 w - - 0 1", "8/1P3k2/8/8/8/8/2K3p1/8 b - - 0 1", "8/PPP4k/8/8/8/8/K4ppp/8 w - - 0 1"] { if let Ok(p) = Pos::from_fen(f) { if p.is_consistent() { sparse.push((p, 3)); } } }
        // every corpus position with an en-passant target (pins, discovered checks, the capture answering a pawn check)
        for (p, _) in corpus.iter() { if p.ep.is_some() && p.piece_count() <= 8 { sparse.push((p.clone(), 2)); } }
        // en-passant-rich sparse set-ups
        for _ in 0..if q { 4 } else { 30 } { sparse.push((gen::ep_rich_sparse(&mut r), 4)); }
        for (p, d) in sparse {
            let want = reference_cum(&p, d);
            // (a brand-new generator costs far more than a shallow count: the shallow targets get one, the deep ones two)
            let modes: &[(&str, usize)] = if d <= 2 { &[("fresh", 4usize), ("used", 2)] } else { &[("fresh", 4usize), ("used", 2), ("fresh", 8)] };
            for &(mode, pool) in modes {
                let got = if mode == "fresh" { engine_count(&mut MoveGenerator::new(), &p, d, pool) } else { engine_count(&mut used, &p, d, pool) };
                evaluations += 1; ctx.count("sparse_positions_to_depth_5", 1);
                ctx.count(&format!("counts_with_{}_generator", mode), 1);
                ctx.distinct(p.key_hash() ^ 5 << 60 ^ (pool as u64) << 50);
                match got {
                    Ok(n) if n == want => {}
                    Ok(n) => ctx.violation(&format!("c10:count-mismatch:{}", mode), &format!("count_positions({}) on {} = {}; the true number is {}", d, p.to_fen(), n, want), json!({"fen": p.to_fen(), "depth": d, "pool": pool, "generator": mode, "engine": n, "rules": want})),
                    Err(e) => ctx.violation(&format!("c10:panic:{}", par::last_panic_location()), &format!("count_positions({}) on {} failed: {}", d, p.to_fen(), e), json!({"fen": p.to_fen(), "depth": d})),
                }
            }
        }
    }
    // every pool size 1..=16 at a moderate depth (the result must not depend on how rayon splits the root moves)
    for (ti, (p, maxd, _t)) in targets.iter().enumerate() {
        if o.replay.is_none() && (ti % (if q { 3 } else { 2 }) != 0 || p.legal_moves().len() > 24) { continue; }
        if ctx.budget_used() > 0.45 { break; }
        let d = (*maxd).min(if p.piece_count() > 12 { 1 } else { 2 });
        let want = p.cum_perft(d);
        for pool in 1..=16usize {
            let got = engine_count(&mut MoveGenerator::new(), p, d, pool);
            evaluations += 1; ctx.count("pool_sweep_counts", 1);
            ctx.distinct(p.key_hash() ^ (d as u64) << 60 ^ (pool as u64) << 50 ^ 7);
            match got {
                Ok(n) if n == want => {}
                Ok(n) => ctx.violation("c10:count-depends-on-pool-size", &format!("count_positions({}) on {} = {} on a pool of {} threads; the true number is {}", d, p.to_fen(), n, pool, want), json!({"fen": p.to_fen(), "depth": d, "pool": pool, "engine": n, "rules": want})),
                Err(e) => ctx.violation(&format!("c10:panic:{}", par::last_panic_location()), &format!("count_positions({}) on {} failed: {}", d, p.to_fen(), e), json!({"fen": p.to_fen(), "depth": d, "pool": pool})),
            }
        }
    }
    for (ti, (p, maxd, tagname)) in targets.iter().enumerate() {
        if ctx.budget_used() > 0.8 { ctx.count("targets_skipped_for_time_budget", 1); continue; }
        let levels = p.perft_levels(*maxd + 1);
        for d in 0..=*maxd {
            let want: u64 = levels[..=(d as usize)].iter().sum();
            let pool = pools[(ti + d as usize) % pools.len()];
            let modes: Vec<(&str, usize)> = if d == *maxd && ti % 4 == 0 { vec![("fresh", pool), ("used", pools[(ti + 3) % pools.len()]), ("fresh", 1)] } else { vec![(if (ti + d as usize) % 2 == 0 { "fresh" } else { "used" }, pool)] };
            for (mode, pool) in modes {
                let got = if mode == "fresh" { engine_count(&mut MoveGenerator::new(), p, d, pool) } else { engine_count(&mut used, p, d, pool) };
                evaluations += 1;
                ctx.count(&format!("counts_with_{}_generator", mode), 1);
                ctx.count(&format!("counts_on_pool_of_{}", pool), 1);
                ctx.set_counter_max("deepest_count_depth", d as u64);
                if want > 1000 { ctx.distinct(p.key_hash() ^ (d as u64) << 60 ^ (pool as u64) << 50 ^ if mode == "fresh" { 1 } else { 2 }); }
                match got {
                    Ok(n) if n == want => {}
                    Ok(n) => ctx.violation(&format!("c10:count-mismatch:{}", mode), &format!("count_positions({}) on {} ({}) = {} with a {} generator on a pool of {}; the true number of sequences of length 1..{} is {}", d, p.to_fen(), tagname, n, mode, pool, d + 1, want),
                        json!({"fen": p.to_fen(), "depth": d, "pool": pool, "generator": mode, "engine": n, "rules": want, "per_level": levels})),
                    Err(e) => ctx.violation(&format!("c10:panic:{}", par::last_panic_location()), &format!("count_positions({}) on {} failed: {}", d, p.to_fen(), e), json!({"fen": p.to_fen(), "depth": d, "pool": pool})),
                }
                if ti % 7 == 0 && d == *maxd { ctx.sample(json!({"fen": p.to_fen(), "depth": d, "pool": pool, "generator": mode, "count": want})); }
            }
        }
    }
    // thorough: the tractable limit from the initial position, in a child process (an allocation failure aborts)
    if !q && o.replay.is_none() {
        let p = Pos::start();
        let want = reference_cum(&p, 5);
        let exe = std::env::current_exe().unwrap();
        let out = std::process::Command::new(exe).args(["C10", "--part", &format!("deep|{}|5|16", p.to_fen())]).output();
        match out {
            Ok(o2) => {
                let s = String::from_utf8_lossy(&o2.stdout).to_string();
                if let Some(n) = s.lines().find_map(|l| l.strip_prefix("COUNT ").and_then(|x| x.trim().parse::<u64>().ok())) {
                    evaluations += 1; ctx.set_counter_max("deepest_count_depth", 5); ctx.distinct(0xdee9);
                    if n != want { ctx.violation("c10:count-mismatch:fresh", &format!("count_positions(5) from the initial position = {}; true value {}", n, want), json!({"fen": p.to_fen(), "depth": 5, "engine": n, "rules": want})); }
                } else { ctx.inconclusive(&format!("deep count child ended without a figure (status {:?})", o2.status)); }
            }
            Err(e) => ctx.inconclusive(&format!("could not start deep count child: {}", e)),
        }
    }
    // CLI: `chess count-positions --depth d`
    if let Ok(bin) = std::env::var("VERIF_CLI_BIN") {
        let d = if q { 3 } else { 4 };
        match std::process::Command::new(&bin).args(["count-positions", "--depth", &d.to_string()]).output() {
            Ok(out) => {
                let s = String::from_utf8_lossy(&out.stdout).to_string();
                let start = Pos::start();
                let levels = start.perft_levels(d + 1);
                let mut seen = 0;
                for line in s.lines() {
                    if let Some(rest) = line.strip_prefix("depth: ") {
                        let parts: Vec<&str> = rest.split(',').collect();
                        let dd: Option<usize> = parts.get(0).and_then(|x| x.trim().parse().ok());
                        let n: Option<u64> = parts.get(1).and_then(|x| x.trim().strip_prefix("positions: ")).and_then(|x| x.trim().parse().ok());
                        if let (Some(dd), Some(n)) = (dd, n) {
                            if dd < levels.len() {
                                let want: u64 = levels[..=dd].iter().sum();
                                seen += 1; evaluations += 1; ctx.count("cli_lines_compared", 1);
                                if n != want { ctx.violation("c10:cli-mismatch", &format!("`chess count-positions --depth {}` prints {} for depth {}; true value {}", d, n, dd, want), json!({"cli_depth": d, "line": line})); }
                            }
                        }
                    }
                }
                if seen == 0 { ctx.inconclusive("the CLI printed no `depth: d, positions: n` line"); }
            }
            Err(e) => ctx.inconclusive(&format!("could not run {}: {}", bin, e)),
        }
    } else { ctx.note("VERIF_CLI_BIN not set: CLI comparison skipped"); }
    mon::put_counters(&ctx);
    ctx.finish(evaluations,
        "count_positions(d) for d = 0..max on perft-suite/corpus positions and random set-ups, on rayon pools of 1/2/3/5/8/16 threads, with brand-new generators and with one generator reused across all depths and positions (as the CLI routine does), compared with the reference engine's cumulative perft; thorough adds depth 5 from the initial position in a child process; the `chess count-positions` binary built from /repo is run and its figures parsed. distinct_nontrivial = distinct (position, depth, pool, generator mode) whose true count exceeds 1000",
        &["reference perft reproduces the published node counts at start-up"],
        &[("counts_with_fresh_generator", 15), ("counts_with_used_generator", 10), ("pool_sweep_counts", 32), ("deepest_count_depth", if q { 4 } else { 5 })])
}
