//! Minimal work-queue parallelism for the harness itself (independent of rayon, which the
//! engine uses), with panic capture per item.
use std::panic::{catch_unwind, AssertUnwindSafe};
use std::sync::atomic::{AtomicUsize, Ordering};

pub fn threads() -> usize {
    std::env::var("VERIF_THREADS").ok().and_then(|s| s.parse().ok()).unwrap_or_else(|| std::thread::available_parallelism().map(|n| n.get()).unwrap_or(8).min(16))
}

/// Run `f(index, item)` for every item on `n` threads. A panic inside `f` is passed to `on_panic`.
pub fn for_each<T: Sync, F: Fn(usize, &T) + Sync, P: Fn(usize, &T, String) + Sync>(items: &[T], n: usize, f: F, on_panic: P) {
    let next = AtomicUsize::new(0);
    std::thread::scope(|s| {
        for _ in 0..n.max(1).min(items.len().max(1)) {
            s.spawn(|| {
                loop {
                    let i = next.fetch_add(1, Ordering::Relaxed);
                    if i >= items.len() { break; }
                    let r = catch_unwind(AssertUnwindSafe(|| f(i, &items[i])));
                    if let Err(e) = r { on_panic(i, &items[i], panic_text(e)); }
                }
                crate::mon::flush_thread();
            });
        }
    });
}

pub fn panic_text(e: Box<dyn std::any::Any + Send>) -> String {
    if let Some(s) = e.downcast_ref::<&str>() { s.to_string() }
    else if let Some(s) = e.downcast_ref::<String>() { s.clone() }
    else { "panic (non-string payload)".to_string() }
}

/// Run an engine call, turning a panic into Err(message).
pub fn guarded<R>(f: impl FnOnce() -> R) -> Result<R, String> {
    catch_unwind(AssertUnwindSafe(f)).map_err(panic_text)
}

/// Like `for_each`, with a per-thread state created by `init` (e.g. a long-lived generator).
pub fn for_each_state<T: Sync, S, I: Fn() -> S + Sync, F: Fn(&mut S, usize, &T) + Sync, P: Fn(usize, &T, String) + Sync>(items: &[T], n: usize, init: I, f: F, on_panic: P) {
    let next = AtomicUsize::new(0);
    std::thread::scope(|s| {
        for _ in 0..n.max(1).min(items.len().max(1)) {
            s.spawn(|| {
                let mut state = init();
                loop {
                    let i = next.fetch_add(1, Ordering::Relaxed);
                    if i >= items.len() { break; }
                    let r = catch_unwind(AssertUnwindSafe(|| f(&mut state, i, &items[i])));
                    if let Err(e) = r { on_panic(i, &items[i], panic_text(e)); state = init(); }
                }
                crate::mon::flush_thread();
            });
        }
    });
}

static LAST_PANIC_LOC: std::sync::Mutex<String> = std::sync::Mutex::new(String::new());

/// Panic hook: silent (engine panics are caught and attributed), but remembers the location.
pub fn install_panic_hook(trace: bool) {
    std::panic::set_hook(Box::new(move |info| {
        let loc = info.location().map(|l| format!("{}:{}", l.file().rsplit("/repo/").next().unwrap_or(l.file()), l.line())).unwrap_or_default();
        if let Ok(mut g) = LAST_PANIC_LOC.lock() { *g = loc.clone(); }
        if trace { eprintln!("[panic at {}] {}", loc, info); }
    }));
}

pub fn last_panic_location() -> String { LAST_PANIC_LOC.lock().map(|g| g.clone()).unwrap_or_default() }
