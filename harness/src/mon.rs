//! Monitors on the engine's cfg-guarded hooks: representation invariants (INV), shadow-stack
//! undo exactness (UNDO), generator-cache observation, routing of search events to sessions.
#![allow(dead_code)]

use crate::snap::PIECES;
use chess::board::castle_rights_bitmask::*;
use chess::board::color::Color;
use chess::board::piece::Piece;
use chess::board::Board;
use chess::verif::{self, BoardEvent, GeneratorEvent, SearchEvent};
use std::cell::RefCell;
use std::collections::HashMap;
use std::sync::atomic::{AtomicBool, AtomicU64, Ordering};
use std::sync::{Arc, Mutex, Once};

// ------------------------------------------------------------------ invariants (C12)

const RANK_1: u64 = 0xFF;
const RANK_8: u64 = 0xFF << 56;

/// Evaluate the representation invariants of C12 through the public API. `deep` also compares
/// `get(sq)` with `locate` square by square.
pub fn invariant_violation(b: &Board, deep: bool) -> Option<String> {
    let mut all = 0u64;
    let mut pop = 0u32;
    let mut per_colour = [0u64; 2];
    for (ci, c) in [Color::White, Color::Black].iter().enumerate() {
        let set = b.pieces(*c);
        let mut u = 0u64;
        for p in PIECES.iter() {
            let x = set.locate(*p).0;
            u |= x; pop += x.count_ones();
        }
        per_colour[ci] = u;
        if set.occupied().0 != u { return Some(format!("{:?} occupancy summary {:#x} differs from the union of its piece boards {:#x}", c, set.occupied().0, u)); }
        all |= u;
        let kings = set.locate(Piece::King).0.count_ones();
        if kings != 1 { return Some(format!("{:?} has {} kings", c, kings)); }
        if set.locate(Piece::Pawn).0 & (RANK_1 | RANK_8) != 0 { return Some(format!("{:?} pawn on the first or eighth rank", c)); }
    }
    if pop != all.count_ones() { return Some("two pieces share a square (piece boards overlap)".to_string()); }
    if b.occupied().0 != all { return Some("whole-board occupancy differs from the union of the piece boards".to_string()); }
    let r = b.peek_castle_rights();
    let w = b.pieces(Color::White); let bl = b.pieces(Color::Black);
    let wk = w.locate(Piece::King).0 & (1 << 4) != 0; let bk = bl.locate(Piece::King).0 & (1 << 60) != 0;
    if r & WHITE_KINGSIDE_RIGHTS != 0 && !(wk && w.locate(Piece::Rook).0 & (1 << 7) != 0) { return Some("white king-side right held without king e1 / rook h1".into()); }
    if r & WHITE_QUEENSIDE_RIGHTS != 0 && !(wk && w.locate(Piece::Rook).0 & 1 != 0) { return Some("white queen-side right held without king e1 / rook a1".into()); }
    if r & BLACK_KINGSIDE_RIGHTS != 0 && !(bk && bl.locate(Piece::Rook).0 & (1 << 63) != 0) { return Some("black king-side right held without king e8 / rook h8".into()); }
    if r & BLACK_QUEENSIDE_RIGHTS != 0 && !(bk && bl.locate(Piece::Rook).0 & (1 << 56) != 0) { return Some("black queen-side right held without king e8 / rook a8".into()); }
    if r > 15 { return Some(format!("castle rights value {} out of range", r)); }
    let ep = b.peek_en_passant_target().0;
    if ep != 0 {
        if ep.count_ones() != 1 { return Some(format!("en-passant target {:#x} is not a single square", ep)); }
        let s = ep.trailing_zeros() as u64;
        let rank = s / 8;
        if rank == 2 {
            if w.locate(Piece::Pawn).0 & (1 << (s + 8)) == 0 { return Some("en-passant target on rank 3 without a white pawn in front of it".into()); }
            if all & (1 << s) != 0 || all & (1 << (s - 8)) != 0 { return Some("en-passant target square or the square behind it is occupied".into()); }
        } else if rank == 5 {
            if bl.locate(Piece::Pawn).0 & (1 << (s - 8)) == 0 { return Some("en-passant target on rank 6 without a black pawn in front of it".into()); }
            if all & (1 << s) != 0 || all & (1 << (s + 8)) != 0 { return Some("en-passant target square or the square behind it is occupied".into()); }
        } else { return Some(format!("en-passant target on rank {}", rank + 1)); }
    }
    if deep {
        for s in 0..64u64 {
            let sq = common::bitboard::bitboard::Bitboard(1 << s);
            let got = b.get(sq);
            let mut want = None;
            for c in [Color::White, Color::Black] { for p in PIECES.iter() { if b.pieces(c).locate(*p).0 & (1 << s) != 0 { want = Some((*p, c)); } } }
            if got != want { return Some(format!("get({}) = {:?} but the piece boards say {:?}", s, got, want)); }
            if b.is_occupied(sq) != want.is_some() { return Some(format!("is_occupied({}) disagrees with the piece boards", s)); }
        }
    }
    None
}

// ------------------------------------------------------------------ digest

#[derive(Clone, Copy, PartialEq, Eq, Debug, Default)]
pub struct Digest(pub u64, pub u64);

impl Digest {
    #[inline(always)]
    fn word(&mut self, w: u64) {
        self.0 = (self.0.rotate_left(5) ^ w).wrapping_mul(0x517c_c1b7_2722_0a95);
        self.1 = (self.1 ^ w).wrapping_mul(0x9E37_79B9_7F4A_7C15);
        self.1 ^= self.1 >> 32;
    }
}

/// Digest of every observable of the board, hidden bookkeeping included (DESIGN A.5).
pub fn board_digest(b: &Board) -> Digest {
    let mut d = Digest(0x1234_5678_9abc_def0, 0x0fed_cba9_8765_4321);
    for c in [Color::White, Color::Black] {
        for p in PIECES.iter() { d.word(b.pieces(c).locate(*p).0); }
        d.word(b.pieces(c).occupied().0);
    }
    // the side to move is deliberately left out: callers toggle it between apply and undo
    let i = b.verif_internals();
    d.word(i.en_passant_target_stack.len() as u64); for x in &i.en_passant_target_stack { d.word(*x); }
    d.word(i.castle_rights_stack.len() as u64); for x in &i.castle_rights_stack { d.word(*x); }
    d.word(i.halfmove_clock_stack.len() as u64); for x in &i.halfmove_clock_stack { d.word(*x); }
    d.word(i.fullmove_clock);
    d.word(i.position_counts.len() as u64); for (k, v) in &i.position_counts { d.word(*k); d.word(*v); }
    d.word(i.max_seen_position_count_stack.len() as u64); for x in &i.max_seen_position_count_stack { d.word(*x); }
    d.word(i.current_position_hash);
    d
}

// ------------------------------------------------------------------ global monitor state

pub static INV_ON: AtomicBool = AtomicBool::new(false);
pub static UNDO_ON: AtomicBool = AtomicBool::new(false);

pub static INV_STATES: AtomicU64 = AtomicU64::new(0);
pub static UNDO_PAIRS: AtomicU64 = AtomicU64::new(0);
pub static UNDO_UNMATCHED: AtomicU64 = AtomicU64::new(0);
pub static UNDO_RESYNC: AtomicU64 = AtomicU64::new(0);
pub static UNDO_MAX_DEPTH: AtomicU64 = AtomicU64::new(0);
pub static APPLY_ERRORS: AtomicU64 = AtomicU64::new(0);
pub static MOVE_HIT: AtomicU64 = AtomicU64::new(0);
pub static MOVE_MISS: AtomicU64 = AtomicU64::new(0);
pub static ATTACK_HIT: AtomicU64 = AtomicU64::new(0);
pub static ATTACK_MISS: AtomicU64 = AtomicU64::new(0);
pub static KIND_COUNTS: [AtomicU64; 4] = [AtomicU64::new(0), AtomicU64::new(0), AtomicU64::new(0), AtomicU64::new(0)];

#[derive(Clone, Debug)]
pub struct HookViolation { pub monitor: &'static str, pub what: String, pub mv: String, pub board: String }

pub static HOOK_VIOLATIONS: Mutex<Vec<HookViolation>> = Mutex::new(Vec::new());

fn report(monitor: &'static str, what: String, mv: &chess::chess_move::chess_move::ChessMove, b: &Board) {
    let mut v = HOOK_VIOLATIONS.lock().unwrap();
    if v.len() < 64 {
        v.push(HookViolation { monitor, what, mv: format!("{}", mv), board: crate::bridge::from_engine(b).to_fen() });
    }
}

pub fn take_hook_violations() -> Vec<HookViolation> { std::mem::take(&mut *HOOK_VIOLATIONS.lock().unwrap()) }

struct Frame { pre: Digest, post: Digest }

#[derive(Default)]
struct LocalMon {
    stacks: HashMap<usize, Vec<Frame>>,
    inv_states: u64, undo_pairs: u64, unmatched: u64, resync: u64, max_depth: u64, apply_errors: u64,
    gen: [u64; 4], kinds: [u64; 4], events: u64,
}

thread_local! {
    /// When set, the position on the board this thread last applied/undid a move on is kept in TRACKED
    /// (used by the search-node oracle to know which position a search node is about).
    pub static TRACK_POSITION: std::cell::Cell<bool> = const { std::cell::Cell::new(false) };
    pub static TRACKED: RefCell<Option<crate::refchess::Pos>> = const { RefCell::new(None) };
    static LOCAL: RefCell<LocalMon> = RefCell::new(LocalMon::default());
    /// Set while a deliberately failing apply is being exercised (C03/C14 negative probes).
    pub static SUPPRESS: std::cell::Cell<bool> = const { std::cell::Cell::new(false) };
    static SESSION: RefCell<Option<Arc<dyn SearchSink>>> = const { RefCell::new(None) };
}

impl LocalMon {
    fn flush(&mut self) {
        INV_STATES.fetch_add(self.inv_states, Ordering::Relaxed); self.inv_states = 0;
        UNDO_PAIRS.fetch_add(self.undo_pairs, Ordering::Relaxed); self.undo_pairs = 0;
        UNDO_UNMATCHED.fetch_add(self.unmatched, Ordering::Relaxed); self.unmatched = 0;
        UNDO_RESYNC.fetch_add(self.resync, Ordering::Relaxed); self.resync = 0;
        APPLY_ERRORS.fetch_add(self.apply_errors, Ordering::Relaxed); self.apply_errors = 0;
        UNDO_MAX_DEPTH.fetch_max(self.max_depth, Ordering::Relaxed);
        MOVE_HIT.fetch_add(self.gen[0], Ordering::Relaxed); MOVE_MISS.fetch_add(self.gen[1], Ordering::Relaxed);
        ATTACK_HIT.fetch_add(self.gen[2], Ordering::Relaxed); ATTACK_MISS.fetch_add(self.gen[3], Ordering::Relaxed);
        self.gen = [0; 4];
        for i in 0..4 { KIND_COUNTS[i].fetch_add(self.kinds[i], Ordering::Relaxed); self.kinds[i] = 0; }
    }
    fn tick(&mut self) { self.events += 1; if self.events % 8192 == 0 { self.flush(); } }
}

/// Flush this thread's counters into the global ones.
pub fn flush_thread() { LOCAL.with(|l| l.borrow_mut().flush()); }

/// Flush the counters of the calling thread and of every thread of rayon's global pool.
pub fn flush_all() { flush_thread(); rayon::broadcast(|_| flush_thread()); }

/// Forget the shadow stacks of this thread (call between unrelated scenarios).
pub fn reset_thread_stacks() { LOCAL.with(|l| l.borrow_mut().stacks.clear()); }

fn on_board_event(ev: &BoardEvent) {
    if TRACK_POSITION.with(|t| t.get()) {
        match ev {
            BoardEvent::AfterApply(_, b, true) | BoardEvent::AfterUndo(_, b, true) => { let p = crate::bridge::from_engine(b); TRACKED.with(|t| *t.borrow_mut() = Some(p)); }
            _ => {}
        }
    }
    let inv = INV_ON.load(Ordering::Relaxed);
    let undo = UNDO_ON.load(Ordering::Relaxed);
    if !inv && !undo { return; }
    if SUPPRESS.with(|s| s.get()) { return; }
    LOCAL.with(|l| {
        let mut l = match l.try_borrow_mut() { Ok(l) => l, Err(_) => return };
        match ev {
            BoardEvent::BeforeApply(_m, b) => {
                if undo {
                    let key = *b as *const Board as usize;
                    let pre = board_digest(b);
                    let st = l.stacks.entry(key).or_default();
                    if let Some(top) = st.last() {
                        if top.post != pre { st.clear(); l.resync += 1; }
                    }
                    let st = l.stacks.entry(key).or_default();
                    st.push(Frame { pre, post: Digest::default() });
                    let depth = st.len() as u64;
                    if depth > l.max_depth { l.max_depth = depth; }
                }
            }
            BoardEvent::AfterApply(m, b, ok) => {
                let kind = match m { chess::chess_move::chess_move::ChessMove::Standard(_) => 0, chess::chess_move::chess_move::ChessMove::PawnPromotion(_) => 1, chess::chess_move::chess_move::ChessMove::EnPassant(_) => 2, chess::chess_move::chess_move::ChessMove::Castle(_) => 3 };
                l.kinds[kind] += 1;
                if !*ok {
                    l.apply_errors += 1;
                    if undo { let key = *b as *const Board as usize; if let Some(st) = l.stacks.get_mut(&key) { st.pop(); } }
                } else {
                    if undo {
                        let key = *b as *const Board as usize;
                        let post = board_digest(b);
                        if let Some(top) = l.stacks.get_mut(&key).and_then(|st| st.last_mut()) { top.post = post; }
                    }
                    if inv {
                        l.inv_states += 1;
                        let deep = l.inv_states % 64 == 0;
                        if let Some(w) = invariant_violation(b, deep) { report("INV", format!("after apply: {}", w), m, b); }
                    }
                }
                l.tick();
            }
            BoardEvent::BeforeUndo(_m, b) => {
                if undo {
                    let key = *b as *const Board as usize;
                    let cur = board_digest(b);
                    let matched = l.stacks.get(&key).and_then(|st| st.last()).map(|f| f.post == cur);
                    match matched {
                        Some(true) => {}
                        Some(false) => { l.stacks.remove(&key); l.resync += 1; }
                        None => {}
                    }
                }
            }
            BoardEvent::AfterUndo(m, b, ok) => {
                if undo {
                    let key = *b as *const Board as usize;
                    match l.stacks.get_mut(&key).and_then(|st| st.pop()) {
                        Some(f) => {
                            if *ok {
                                l.undo_pairs += 1;
                                let now = board_digest(b);
                                if now != f.pre { report("UNDO", "state after undo differs from the state before the matching apply".to_string(), m, b); }
                            }
                        }
                        None => { l.unmatched += 1; }
                    }
                }
                if inv && *ok {
                    l.inv_states += 1;
                    if let Some(w) = invariant_violation(b, false) { report("INV", format!("after undo: {}", w), m, b); }
                }
                l.tick();
            }
        }
    });
}

fn on_generator_event(ev: &GeneratorEvent) {
    LOCAL.with(|l| {
        if let Ok(mut l) = l.try_borrow_mut() {
            match ev {
                GeneratorEvent::MoveCacheHit { .. } => l.gen[0] += 1,
                GeneratorEvent::MoveCacheMiss { .. } => l.gen[1] += 1,
                GeneratorEvent::AttackCacheHit { .. } => l.gen[2] += 1,
                GeneratorEvent::AttackCacheMiss { .. } => l.gen[3] += 1,
            }
            l.tick();
        }
    });
}

// ------------------------------------------------------------------ search sessions

pub trait SearchSink: Send + Sync {
    fn event(&self, ev: &SearchEvent);
}

/// Route this thread's search events to `sink` (None = ignore them).
pub fn set_session(sink: Option<Arc<dyn SearchSink>>) { SESSION.with(|s| *s.borrow_mut() = sink); }

fn on_search_event(ev: &SearchEvent) {
    let sink = SESSION.with(|s| s.borrow().clone());
    if let Some(sink) = sink { sink.event(ev); }
}

static INSTALL: Once = Once::new();

/// Install the process-wide observers (idempotent). Board monitors stay off until enabled.
pub fn install() {
    INSTALL.call_once(|| {
        verif::set_board_observer(Some(Arc::new(|ev: &BoardEvent| on_board_event(ev))));
        verif::set_generator_observer(Some(Arc::new(|ev: &GeneratorEvent| on_generator_event(ev))));
        verif::set_search_observer(Some(Arc::new(|ev: &SearchEvent| on_search_event(ev))));
    });
}

pub fn enable_board_monitors(inv: bool, undo: bool) {
    install();
    INV_ON.store(inv, Ordering::SeqCst);
    UNDO_ON.store(undo, Ordering::SeqCst);
}

/// A rayon pool whose workers route search events to `sink`.
pub fn pool_with_session(threads: usize, sink: Option<Arc<dyn SearchSink>>) -> rayon::ThreadPool {
    pool_with_session_tracking(threads, sink, false)
}

/// Kernel thread id of the calling thread (Linux), for stall diagnosis through /proc.
pub fn current_tid() -> Option<u32> {
    std::fs::read_link("/proc/thread-self").ok().and_then(|p| p.file_name().and_then(|n| n.to_str().and_then(|s| s.parse().ok())))
}

/// Scheduler states ('R' running, 'S' sleeping, 'D' disk wait, ...) of the given threads of this process.
pub fn thread_states(tids: &[u32]) -> Vec<char> {
    tids.iter().map(|t| std::fs::read_to_string(format!("/proc/self/task/{}/stat", t)).ok().and_then(|s| s.rsplit(')').next().and_then(|r| r.trim().chars().next())).unwrap_or('?')).collect()
}

/// A pool whose workers route search events to `sink` and publish their thread ids in `tids`.
pub fn pool_with_session_tids(threads: usize, sink: Option<Arc<dyn SearchSink>>, tids: Arc<Mutex<Vec<u32>>>) -> rayon::ThreadPool {
    rayon::ThreadPoolBuilder::new()
        .num_threads(threads)
        .start_handler(move |_| { set_session(sink.clone()); if let Some(t) = current_tid() { tids.lock().unwrap().push(t); } })
        .exit_handler(|_| { flush_thread(); })
        .build()
        .expect("rayon pool")
}

/// Like `pool_with_session`; with `track` the workers also keep the position of their current board.
pub fn pool_with_session_tracking(threads: usize, sink: Option<Arc<dyn SearchSink>>, track: bool) -> rayon::ThreadPool {
    rayon::ThreadPoolBuilder::new()
        .num_threads(threads)
        .start_handler(move |_| { set_session(sink.clone()); TRACK_POSITION.with(|t| t.set(track)); })
        .exit_handler(|_| { flush_thread(); })
        .build()
        .expect("rayon pool")
}

pub fn counters_json() -> serde_json::Value {
    serde_json::json!({
        "hook_inv_states": INV_STATES.load(Ordering::Relaxed),
        "hook_undo_pairs": UNDO_PAIRS.load(Ordering::Relaxed),
        "hook_undo_unmatched": UNDO_UNMATCHED.load(Ordering::Relaxed),
        "hook_undo_resync": UNDO_RESYNC.load(Ordering::Relaxed),
        "hook_undo_max_depth": UNDO_MAX_DEPTH.load(Ordering::Relaxed),
        "hook_apply_errors": APPLY_ERRORS.load(Ordering::Relaxed),
        "move_cache_hits": MOVE_HIT.load(Ordering::Relaxed),
        "move_cache_misses": MOVE_MISS.load(Ordering::Relaxed),
        "attack_cache_hits": ATTACK_HIT.load(Ordering::Relaxed),
        "attack_cache_misses": ATTACK_MISS.load(Ordering::Relaxed),
    })
}

pub fn put_counters(ctx: &crate::out::Ctx) {
    flush_all();
    for (k, v) in [
        ("hook_inv_states", &INV_STATES), ("hook_undo_pairs", &UNDO_PAIRS), ("hook_undo_unmatched", &UNDO_UNMATCHED),
        ("hook_undo_resync", &UNDO_RESYNC), ("hook_undo_max_depth", &UNDO_MAX_DEPTH), ("hook_apply_errors", &APPLY_ERRORS),
        ("move_cache_hits", &MOVE_HIT), ("move_cache_misses", &MOVE_MISS), ("attack_cache_hits", &ATTACK_HIT), ("attack_cache_misses", &ATTACK_MISS),
        ("hook_apply_standard", &KIND_COUNTS[0]), ("hook_apply_promotion", &KIND_COUNTS[1]), ("hook_apply_en_passant", &KIND_COUNTS[2]), ("hook_apply_castle", &KIND_COUNTS[3]),
    ] {
        let x = v.load(Ordering::Relaxed);
        if x > 0 { ctx.set_counter_max(k, x); }
    }
}
