//! Independent reference rules engine (mailbox). Square index = rank*8+file, a1 = 0.
#![allow(dead_code)]

#[derive(Clone, Copy, PartialEq, Eq, Debug, Hash, PartialOrd, Ord)]
pub enum Col { W, B }
impl Col { pub fn opp(self) -> Col { if self == Col::W { Col::B } else { Col::W } } }

#[derive(Clone, Copy, PartialEq, Eq, Debug, Hash, PartialOrd, Ord)]
pub enum Pc { P, N, B, R, Q, K }

#[derive(Clone, Copy, PartialEq, Eq, Debug, Hash, PartialOrd, Ord)]
pub enum Kind { Quiet, Capture, DoublePush, EnPassant, CastleK, CastleQ, Promo(Pc), PromoCapture(Pc) }

#[derive(Clone, Copy, PartialEq, Eq, Debug, Hash, PartialOrd, Ord)]
pub struct Mv { pub from: u8, pub to: u8, pub piece: Pc, pub captured: Option<Pc>, pub kind: Kind }

pub const WK: u8 = 1; pub const WQ: u8 = 2; pub const BK: u8 = 4; pub const BQ: u8 = 8;

#[derive(Clone, PartialEq, Eq, Debug, Hash)]
pub struct Pos {
    pub sq: [Option<(Col, Pc)>; 64],
    pub turn: Col,
    pub rights: u8,
    pub ep: Option<u8>,
    pub halfmove: u32,
    pub plies: u32,
}

pub fn file_of(s: u8) -> i8 { (s % 8) as i8 }
pub fn rank_of(s: u8) -> i8 { (s / 8) as i8 }
pub fn sq_of(f: i8, r: i8) -> Option<u8> { if (0..8).contains(&f) && (0..8).contains(&r) { Some((r * 8 + f) as u8) } else { None } }
pub fn sq_name(s: u8) -> String { format!("{}{}", (b'a' + s % 8) as char, (b'1' + s / 8) as char) }
pub fn parse_sq(s: &str) -> Option<u8> {
    let b = s.as_bytes();
    if b.len() != 2 || !(b'a'..=b'h').contains(&b[0]) || !(b'1'..=b'8').contains(&b[1]) { return None; }
    Some((b[1] - b'1') * 8 + (b[0] - b'a'))
}

const KNIGHT: [(i8, i8); 8] = [(1, 2), (2, 1), (2, -1), (1, -2), (-1, -2), (-2, -1), (-2, 1), (-1, 2)];
const KING: [(i8, i8); 8] = [(1, 0), (1, 1), (0, 1), (-1, 1), (-1, 0), (-1, -1), (0, -1), (1, -1)];
const ROOK_D: [(i8, i8); 4] = [(1, 0), (-1, 0), (0, 1), (0, -1)];
const BISHOP_D: [(i8, i8); 4] = [(1, 1), (1, -1), (-1, 1), (-1, -1)];

impl Pos {
    pub fn empty() -> Pos { Pos { sq: [None; 64], turn: Col::W, rights: 0, ep: None, halfmove: 0, plies: 0 } }

    pub fn from_fen(fen: &str) -> Result<Pos, String> {
        let parts: Vec<&str> = fen.split_whitespace().collect();
        if parts.len() < 4 { return Err(format!("bad fen: {}", fen)); }
        let mut p = Pos::empty();
        let rows: Vec<&str> = parts[0].split('/').collect();
        if rows.len() != 8 { return Err("bad rows".into()); }
        for (i, row) in rows.iter().enumerate() {
            let r = 7 - i as i8;
            let mut f = 0i8;
            for c in row.chars() {
                if let Some(d) = c.to_digit(10) { f += d as i8; continue; }
                let col = if c.is_ascii_uppercase() { Col::W } else { Col::B };
                let pc = match c.to_ascii_lowercase() { 'p' => Pc::P, 'n' => Pc::N, 'b' => Pc::B, 'r' => Pc::R, 'q' => Pc::Q, 'k' => Pc::K, _ => return Err("bad piece".into()) };
                let s = sq_of(f, r).ok_or("bad square")?;
                p.sq[s as usize] = Some((col, pc));
                f += 1;
            }
            if f != 8 { return Err("bad row width".into()); }
        }
        p.turn = match parts[1] { "w" => Col::W, "b" => Col::B, _ => return Err("bad turn".into()) };
        for c in parts[2].chars() { match c { 'K' => p.rights |= WK, 'Q' => p.rights |= WQ, 'k' => p.rights |= BK, 'q' => p.rights |= BQ, '-' => {}, _ => return Err("bad rights".into()) } }
        p.ep = if parts[3] == "-" { None } else { Some(parse_sq(parts[3]).ok_or("bad ep")?) };
        p.halfmove = parts.get(4).and_then(|s| s.parse().ok()).unwrap_or(0);
        let full: u32 = parts.get(5).and_then(|s| s.parse().ok()).unwrap_or(1);
        p.plies = (full.max(1) - 1) * 2 + if p.turn == Col::B { 1 } else { 0 };
        Ok(p)
    }

    pub fn to_fen(&self) -> String {
        let mut s = String::new();
        for r in (0..8).rev() {
            let mut empty = 0;
            for f in 0..8 {
                match self.sq[(r * 8 + f) as usize] {
                    None => empty += 1,
                    Some((c, p)) => {
                        if empty > 0 { s.push_str(&empty.to_string()); empty = 0; }
                        let ch = match p { Pc::P => 'p', Pc::N => 'n', Pc::B => 'b', Pc::R => 'r', Pc::Q => 'q', Pc::K => 'k' };
                        s.push(if c == Col::W { ch.to_ascii_uppercase() } else { ch });
                    }
                }
            }
            if empty > 0 { s.push_str(&empty.to_string()); }
            if r > 0 { s.push('/'); }
        }
        s.push(' '); s.push(if self.turn == Col::W { 'w' } else { 'b' }); s.push(' ');
        if self.rights == 0 { s.push('-'); } else {
            if self.rights & WK != 0 { s.push('K'); } if self.rights & WQ != 0 { s.push('Q'); }
            if self.rights & BK != 0 { s.push('k'); } if self.rights & BQ != 0 { s.push('q'); }
        }
        s.push(' ');
        match self.ep { None => s.push('-'), Some(e) => s.push_str(&sq_name(e)) }
        s.push_str(&format!(" {} {}", self.halfmove, self.plies / 2 + 1));
        s
    }

    pub fn king_sq(&self, c: Col) -> Option<u8> { (0..64u8).find(|&s| self.sq[s as usize] == Some((c, Pc::K))) }

    /// Is square `s` attacked by any piece of colour `by`?
    pub fn attacked(&self, s: u8, by: Col) -> bool {
        let (f, r) = (file_of(s), rank_of(s));
        // pawns: a pawn of colour `by` on (f±1, r∓dir) attacks s
        let dir = if by == Col::W { 1 } else { -1 };
        for df in [-1i8, 1] {
            if let Some(q) = sq_of(f + df, r - dir) { if self.sq[q as usize] == Some((by, Pc::P)) { return true; } }
        }
        for (df, dr) in KNIGHT { if let Some(q) = sq_of(f + df, r + dr) { if self.sq[q as usize] == Some((by, Pc::N)) { return true; } } }
        for (df, dr) in KING { if let Some(q) = sq_of(f + df, r + dr) { if self.sq[q as usize] == Some((by, Pc::K)) { return true; } } }
        for (dirs, slider) in [(ROOK_D, Pc::R), (BISHOP_D, Pc::B)] {
            for (df, dr) in dirs {
                let (mut cf, mut cr) = (f + df, r + dr);
                while let Some(q) = sq_of(cf, cr) {
                    if let Some((c, p)) = self.sq[q as usize] {
                        if c == by && (p == slider || p == Pc::Q) { return true; }
                        break;
                    }
                    cf += df; cr += dr;
                }
            }
        }
        false
    }

    pub fn in_check(&self, c: Col) -> bool { match self.king_sq(c) { Some(k) => self.attacked(k, c.opp()), None => false } }

    fn push_pawn_move(&self, out: &mut Vec<Mv>, from: u8, to: u8, captured: Option<Pc>) {
        let c = self.turn;
        let last = if c == Col::W { 7 } else { 0 };
        if rank_of(to) == last {
            for p in [Pc::Q, Pc::R, Pc::B, Pc::N] {
                out.push(Mv { from, to, piece: Pc::P, captured, kind: if captured.is_some() { Kind::PromoCapture(p) } else { Kind::Promo(p) } });
            }
        } else {
            out.push(Mv { from, to, piece: Pc::P, captured, kind: if captured.is_some() { Kind::Capture } else { Kind::Quiet } });
        }
    }

    pub fn pseudo_moves(&self) -> Vec<Mv> {
        let mut out = Vec::with_capacity(48);
        let c = self.turn;
        for from in 0..64u8 {
            let (pc_col, pc) = match self.sq[from as usize] { Some(x) => x, None => continue };
            if pc_col != c { continue; }
            let (f, r) = (file_of(from), rank_of(from));
            match pc {
                Pc::P => {
                    let dir = if c == Col::W { 1 } else { -1 };
                    let start = if c == Col::W { 1 } else { 6 };
                    if let Some(one) = sq_of(f, r + dir) {
                        if self.sq[one as usize].is_none() {
                            self.push_pawn_move(&mut out, from, one, None);
                            if r == start {
                                if let Some(two) = sq_of(f, r + 2 * dir) {
                                    if self.sq[two as usize].is_none() {
                                        out.push(Mv { from, to: two, piece: Pc::P, captured: None, kind: Kind::DoublePush });
                                    }
                                }
                            }
                        }
                    }
                    for df in [-1i8, 1] {
                        if let Some(to) = sq_of(f + df, r + dir) {
                            if let Some((oc, op)) = self.sq[to as usize] {
                                if oc != c { self.push_pawn_move(&mut out, from, to, Some(op)); }
                            } else if self.ep == Some(to) {
                                // the captured pawn stands beside the capturer
                                if let Some(capsq) = sq_of(f + df, r) {
                                    if self.sq[capsq as usize] == Some((c.opp(), Pc::P)) {
                                        out.push(Mv { from, to, piece: Pc::P, captured: Some(Pc::P), kind: Kind::EnPassant });
                                    }
                                }
                            }
                        }
                    }
                }
                Pc::N | Pc::K => {
                    let offs = if pc == Pc::N { KNIGHT } else { KING };
                    for (df, dr) in offs {
                        if let Some(to) = sq_of(f + df, r + dr) {
                            match self.sq[to as usize] {
                                None => out.push(Mv { from, to, piece: pc, captured: None, kind: Kind::Quiet }),
                                Some((oc, op)) if oc != c => out.push(Mv { from, to, piece: pc, captured: Some(op), kind: Kind::Capture }),
                                _ => {}
                            }
                        }
                    }
                }
                Pc::B | Pc::R | Pc::Q => {
                    let mut dirs: Vec<(i8, i8)> = vec![];
                    if pc != Pc::B { dirs.extend_from_slice(&ROOK_D); }
                    if pc != Pc::R { dirs.extend_from_slice(&BISHOP_D); }
                    for (df, dr) in dirs {
                        let (mut cf, mut cr) = (f + df, r + dr);
                        while let Some(to) = sq_of(cf, cr) {
                            match self.sq[to as usize] {
                                None => out.push(Mv { from, to, piece: pc, captured: None, kind: Kind::Quiet }),
                                Some((oc, op)) => { if oc != c { out.push(Mv { from, to, piece: pc, captured: Some(op), kind: Kind::Capture }); } break; }
                            }
                            cf += df; cr += dr;
                        }
                    }
                }
            }
        }
        // castling
        let (home, kr, qr, kflag, qflag) = if c == Col::W { (4u8, 7u8, 0u8, WK, WQ) } else { (60u8, 63u8, 56u8, BK, BQ) };
        if self.sq[home as usize] == Some((c, Pc::K)) && !self.attacked(home, c.opp()) {
            if self.rights & kflag != 0 && self.sq[kr as usize] == Some((c, Pc::R))
                && self.sq[(home + 1) as usize].is_none() && self.sq[(home + 2) as usize].is_none()
                && !self.attacked(home + 1, c.opp()) && !self.attacked(home + 2, c.opp()) {
                out.push(Mv { from: home, to: home + 2, piece: Pc::K, captured: None, kind: Kind::CastleK });
            }
            if self.rights & qflag != 0 && self.sq[qr as usize] == Some((c, Pc::R))
                && self.sq[(home - 1) as usize].is_none() && self.sq[(home - 2) as usize].is_none() && self.sq[(home - 3) as usize].is_none()
                && !self.attacked(home - 1, c.opp()) && !self.attacked(home - 2, c.opp()) {
                out.push(Mv { from: home, to: home - 2, piece: Pc::K, captured: None, kind: Kind::CastleQ });
            }
        }
        out
    }

    pub fn make(&self, m: &Mv) -> Pos {
        let mut n = self.clone();
        let c = self.turn;
        n.sq[m.from as usize] = None;
        let mut placed = m.piece;
        match m.kind {
            Kind::Promo(p) | Kind::PromoCapture(p) => placed = p,
            _ => {}
        }
        if m.kind == Kind::EnPassant {
            let capsq = sq_of(file_of(m.to), rank_of(m.from)).unwrap();
            n.sq[capsq as usize] = None;
        }
        n.sq[m.to as usize] = Some((c, placed));
        match m.kind {
            Kind::CastleK => { let (rf, rt) = if c == Col::W { (7, 5) } else { (63, 61) }; n.sq[rf] = None; n.sq[rt] = Some((c, Pc::R)); }
            Kind::CastleQ => { let (rf, rt) = if c == Col::W { (0, 3) } else { (56, 59) }; n.sq[rf] = None; n.sq[rt] = Some((c, Pc::R)); }
            _ => {}
        }
        // rights
        for (sq, flag) in [(4u8, WK | WQ), (0, WQ), (7, WK), (60, BK | BQ), (56, BQ), (63, BK)] {
            if m.from == sq || m.to == sq { n.rights &= !flag; }
        }
        n.ep = if m.kind == Kind::DoublePush { Some((m.from + m.to) / 2) } else { None };
        n.halfmove = if m.piece == Pc::P || m.captured.is_some() { 0 } else { self.halfmove + 1 };
        n.plies = self.plies + 1;
        n.turn = c.opp();
        n
    }

    pub fn legal_moves(&self) -> Vec<Mv> {
        let c = self.turn;
        self.pseudo_moves().into_iter().filter(|m| { let n = self.make(m); !n.in_check(c) }).collect()
    }

    pub fn perft(&self, d: u32) -> u64 {
        if d == 0 { return 1; }
        let ms = self.legal_moves();
        if d == 1 { return ms.len() as u64; }
        ms.iter().map(|m| self.make(m).perft(d - 1)).sum()
    }

    pub fn uci(&self, m: &Mv) -> String {
        let mut s = format!("{}{}", sq_name(m.from), sq_name(m.to));
        if let Kind::Promo(p) | Kind::PromoCapture(p) = m.kind { s.push(match p { Pc::Q => 'q', Pc::R => 'r', Pc::B => 'b', Pc::N => 'n', _ => '?' }); }
        s
    }

    pub fn san(&self, m: &Mv, legal: &[Mv]) -> String {
        let n = self.make(m);
        let suffix = if n.in_check(n.turn) { if n.legal_moves().is_empty() { "#" } else { "+" } } else { "" };
        let body = match m.kind {
            Kind::CastleK => "O-O".to_string(),
            Kind::CastleQ => "O-O-O".to_string(),
            _ => {
                let mut s = String::new();
                let letter = match m.piece { Pc::P => "", Pc::N => "N", Pc::B => "B", Pc::R => "R", Pc::Q => "Q", Pc::K => "K" };
                s.push_str(letter);
                if m.piece == Pc::P {
                    if m.captured.is_some() { s.push((b'a' + m.from % 8) as char); }
                } else {
                    let others: Vec<&Mv> = legal.iter().filter(|o| o.piece == m.piece && o.to == m.to && o.from != m.from).collect();
                    if !others.is_empty() {
                        let same_file = others.iter().any(|o| file_of(o.from) == file_of(m.from));
                        let same_rank = others.iter().any(|o| rank_of(o.from) == rank_of(m.from));
                        if !same_file { s.push((b'a' + m.from % 8) as char); }
                        else if !same_rank { s.push((b'1' + m.from / 8) as char); }
                        else { s.push_str(&sq_name(m.from)); }
                    }
                }
                if m.captured.is_some() { s.push('x'); }
                s.push_str(&sq_name(m.to));
                if let Kind::Promo(p) | Kind::PromoCapture(p) = m.kind { s.push('='); s.push(match p { Pc::Q => 'Q', Pc::R => 'R', Pc::B => 'B', Pc::N => 'N', _ => '?' }); }
                s
            }
        };
        format!("{}{}", body, suffix)
    }
}

// ---------------------------------------------------------------------------------------
// Additions for the harness proper (keys, symmetry twins, perft sums, minimax, lenient SAN)
// ---------------------------------------------------------------------------------------

/// Canonical full-position key: placement, side to move, rights, en-passant target.
pub type PosKey = [u8; 35];

impl Pos {
    pub fn start() -> Pos { Pos::from_fen("rnbqkbnr/pppppppp/8/8/8/8/PPPPPPPP/RNBQKBNR w KQkq - 0 1").unwrap() }

    pub fn key(&self) -> PosKey {
        let mut k = [0u8; 35];
        for s in 0..64 {
            let v = match self.sq[s] { None => 0u8, Some((c, p)) => 1 + (p as u8) + if c == Col::B { 6 } else { 0 } };
            k[s / 2] |= v << ((s % 2) * 4);
        }
        k[32] = if self.turn == Col::W { 0 } else { 1 };
        k[33] = self.rights;
        k[34] = self.ep.map(|e| e + 1).unwrap_or(0);
        k
    }

    /// Key without the side to move (what the engine's position hash is defined over).
    pub fn key_noturn(&self) -> PosKey { let mut k = self.key(); k[32] = 0; k }

    pub fn key_hash(&self) -> u64 { hash_bytes(&self.key()) }

    pub fn piece_count(&self) -> usize { self.sq.iter().filter(|x| x.is_some()).count() }

    /// Colour swap + 180 degree rotation (square i -> 63 - i). Castling rights do not map to
    /// castling rights under a rotation, so they are dropped (callers use it on right-less positions).
    pub fn twin_rot180(&self) -> Pos {
        let mut n = Pos::empty();
        for s in 0..64 { if let Some((c, p)) = self.sq[s] { n.sq[63 - s] = Some((c.opp(), p)); } }
        n.turn = self.turn.opp();
        n.rights = 0;
        n.ep = self.ep.map(|e| 63 - e);
        n.halfmove = self.halfmove; n.plies = self.plies;
        n
    }

    /// Colour swap + rank mirror (square s -> s ^ 56): a true symmetry of chess including castling.
    pub fn twin_mirror(&self) -> Pos {
        let mut n = Pos::empty();
        for s in 0..64 { if let Some((c, p)) = self.sq[s] { n.sq[s ^ 56] = Some((c.opp(), p)); } }
        n.turn = self.turn.opp();
        let mut r = 0;
        if self.rights & WK != 0 { r |= BK; } if self.rights & WQ != 0 { r |= BQ; }
        if self.rights & BK != 0 { r |= WK; } if self.rights & BQ != 0 { r |= WQ; }
        n.rights = r;
        n.ep = self.ep.map(|e| e ^ 56);
        n.halfmove = self.halfmove; n.plies = self.plies;
        n
    }

    /// Sum over k = 1..=d+1 of the number of legal move sequences of length k.
    pub fn cum_perft(&self, d: u32) -> u64 { (1..=d + 1).map(|k| self.perft(k)).sum() }

    /// perft(1..=n) in one traversal: out[k-1] = number of sequences of length k.
    pub fn perft_levels(&self, n: u32) -> Vec<u64> {
        let mut out = vec![0u64; n as usize];
        fn rec(p: &Pos, level: usize, n: usize, out: &mut Vec<u64>) {
            let ms = p.legal_moves();
            out[level] += ms.len() as u64;
            if level + 1 < n { for m in &ms { rec(&p.make(m), level + 1, n, out); } }
        }
        if n > 0 { rec(self, 0, n as usize, &mut out); }
        out
    }

    /// Consistency in the sense of the properties' quantifier: one king per side, no pawn on
    /// rank 1/8, side not to move not in check, rights supported by home squares, ep target
    /// consistent with a just-made double step.
    pub fn is_consistent(&self) -> bool {
        let wk = self.sq.iter().filter(|x| **x == Some((Col::W, Pc::K))).count();
        let bk = self.sq.iter().filter(|x| **x == Some((Col::B, Pc::K))).count();
        if wk != 1 || bk != 1 { return false; }
        for f in 0..8 { for r in [0usize, 7] { if let Some((_, Pc::P)) = self.sq[r * 8 + f] { return false; } } }
        if self.in_check(self.turn.opp()) { return false; }
        let (wkh, bkh) = (self.sq[4] == Some((Col::W, Pc::K)), self.sq[60] == Some((Col::B, Pc::K)));
        if self.rights & WK != 0 && !(wkh && self.sq[7] == Some((Col::W, Pc::R))) { return false; }
        if self.rights & WQ != 0 && !(wkh && self.sq[0] == Some((Col::W, Pc::R))) { return false; }
        if self.rights & BK != 0 && !(bkh && self.sq[63] == Some((Col::B, Pc::R))) { return false; }
        if self.rights & BQ != 0 && !(bkh && self.sq[56] == Some((Col::B, Pc::R))) { return false; }
        if let Some(e) = self.ep {
            let r = rank_of(e);
            // the side that just moved is the one NOT to move
            let (want_rank, pawn_sq, behind, mover) = if self.turn == Col::B { (2, e + 8, e - 8, Col::W) } else { (5, e - 8, e + 8, Col::B) };
            if r != want_rank { return false; }
            if self.sq[pawn_sq as usize] != Some((mover, Pc::P)) { return false; }
            if self.sq[e as usize].is_some() || self.sq[behind as usize].is_some() { return false; }
        }
        true
    }
}

pub fn hash_bytes(b: &[u8]) -> u64 {
    let mut h: u64 = 0xcbf2_9ce4_8422_2325;
    for &x in b { h ^= x as u64; h = h.wrapping_mul(0x0000_0100_0000_01B3); }
    h ^ (h >> 29)
}

/// Terminal status of a position for the side to move.
#[derive(Clone, Copy, PartialEq, Eq, Debug)]
pub enum Status { Ongoing, Checkmate, Stalemate }

impl Pos {
    pub fn status(&self) -> Status {
        if !self.legal_moves().is_empty() { Status::Ongoing }
        else if self.in_check(self.turn) { Status::Checkmate } else { Status::Stalemate }
    }
}

/// Plain fixed-depth minimax (no pruning, no cache). White maximises.
/// `leaf(pos, status, remaining_depth)` supplies every leaf/terminal value.
pub fn minimax(p: &Pos, depth: u32, leaf: &mut dyn FnMut(&Pos, Status, u32) -> i32, nodes: &mut u64) -> i32 {
    *nodes += 1;
    let ms = p.legal_moves();
    if ms.is_empty() {
        let st = if p.in_check(p.turn) { Status::Checkmate } else { Status::Stalemate };
        return leaf(p, st, depth);
    }
    if depth == 0 { return leaf(p, Status::Ongoing, 0); }
    let mut best = if p.turn == Col::W { i32::MIN } else { i32::MAX };
    for m in &ms {
        let v = minimax(&p.make(m), depth - 1, leaf, nodes);
        if p.turn == Col::W { if v > best { best = v; } } else if v < best { best = v; }
    }
    best
}

// ------------------------------- lenient SAN reading (C14) -------------------------------

#[derive(Clone, Debug, PartialEq, Eq)]
pub enum SanPattern {
    Castle { kingside: bool },
    Move { piece: Pc, from_file: Option<u8>, from_rank: Option<u8>, to: u8, promo: Option<Pc> },
}

/// `[NBRQK]? [a-h]? [1-8]? x? [a-h][1-8] (=[NBRQ])? [+#]?`  or  `O-O(-O)? [+#]?`
pub fn parse_lenient(s: &str) -> Option<SanPattern> {
    let mut b: Vec<u8> = s.bytes().collect();
    if let Some(&l) = b.last() { if l == b'+' || l == b'#' { b.pop(); } }
    if b == b"O-O" { return Some(SanPattern::Castle { kingside: true }); }
    if b == b"O-O-O" { return Some(SanPattern::Castle { kingside: false }); }
    let mut promo = None;
    if b.len() >= 2 && b[b.len() - 2] == b'=' {
        promo = Some(match b[b.len() - 1] { b'N' => Pc::N, b'B' => Pc::B, b'R' => Pc::R, b'Q' => Pc::Q, _ => return None });
        b.truncate(b.len() - 2);
    }
    if b.len() < 2 { return None; }
    let tr = b[b.len() - 1]; let tf = b[b.len() - 2];
    if !(b'a'..=b'h').contains(&tf) || !(b'1'..=b'8').contains(&tr) { return None; }
    let to = (tr - b'1') * 8 + (tf - b'a');
    b.truncate(b.len() - 2);
    if b.last() == Some(&b'x') { b.pop(); }
    let mut i = 0;
    let mut piece = Pc::P;
    if i < b.len() {
        piece = match b[i] { b'N' => { i += 1; Pc::N } b'B' => { i += 1; Pc::B } b'R' => { i += 1; Pc::R } b'Q' => { i += 1; Pc::Q } b'K' => { i += 1; Pc::K } _ => Pc::P };
    }
    let mut from_file = None; let mut from_rank = None;
    if i < b.len() && (b'a'..=b'h').contains(&b[i]) { from_file = Some(b[i] - b'a'); i += 1; }
    if i < b.len() && (b'1'..=b'8').contains(&b[i]) { from_rank = Some(b[i] - b'1'); i += 1; }
    if i != b.len() { return None; }
    Some(SanPattern::Move { piece, from_file, from_rank, to, promo })
}

pub fn lenient_match(pat: &SanPattern, m: &Mv) -> bool {
    match pat {
        SanPattern::Castle { kingside } => (m.kind == Kind::CastleK && *kingside) || (m.kind == Kind::CastleQ && !*kingside),
        SanPattern::Move { piece, from_file, from_rank, to, promo } => {
            if matches!(m.kind, Kind::CastleK | Kind::CastleQ) { return false; }
            let mp = match m.kind { Kind::Promo(p) | Kind::PromoCapture(p) => Some(p), _ => None };
            m.piece == *piece && m.to == *to && mp == *promo
                && from_file.map_or(true, |f| (m.from % 8) == f)
                && from_rank.map_or(true, |r| (m.from / 8) == r)
        }
    }
}

/// Published node counts the oracle must reproduce before it is believed.
pub fn self_test(deep: bool) -> Result<u64, String> {
    let table: &[(&str, &[u64])] = &[
        ("rnbqkbnr/pppppppp/8/8/8/8/PPPPPPPP/RNBQKBNR w KQkq - 0 1", &[20, 400, 8902, 197281, 4865609]),
        ("r3k2r/p1ppqpb1/bn2pnp1/3PN3/1p2P3/2N2Q1p/PPPBBPPP/R3K2R w KQkq - 0 1", &[48, 2039, 97862, 4085603]),
        ("8/2p5/3p4/KP5r/1R3p1k/8/4P1P1/8 w - - 0 1", &[14, 191, 2812, 43238, 674624]),
        ("r3k2r/Pppp1ppp/1b3nbN/nP6/BBP1P3/q4N2/Pp1P2PP/R2Q1RK1 w kq - 0 1", &[6, 264, 9467, 422333]),
        ("r2q1rk1/pP1p2pp/Q4n2/bbp1p3/Np6/1B3NBn/pPPP1PPP/R3K2R b KQ - 0 1", &[6, 264, 9467, 422333]),
        ("rnbq1k1r/pp1Pbppp/2p5/8/2B5/8/PPP1NnPP/RNBQK2R w KQ - 1 8", &[44, 1486, 62379, 2103487]),
        ("r4rk1/1pp1qppp/p1np1n2/2b1p1B1/2B1P1b1/P1NP1N2/1PP1QPPP/R4RK1 w - - 0 10", &[46, 2079, 89890, 3894594]),
    ];
    let mut nodes = 0u64;
    for (fen, want) in table {
        let p = Pos::from_fen(fen)?;
        let n = if deep { want.len() } else { want.len().min(3) };
        let got = p.perft_levels(n as u32);
        for k in 0..n {
            if got[k] != want[k] { return Err(format!("oracle self-test: perft({}) of {} = {} (published {})", k + 1, fen, got[k], want[k])); }
            nodes += got[k];
        }
        // the rank-mirrored twin must give the same counts (checks the symmetry helper too)
        let t = p.twin_mirror().perft_levels(n.min(3) as u32);
        for k in 0..n.min(3) { if t[k] != want[k] { return Err(format!("oracle self-test: mirrored perft({}) of {}", k + 1, fen)); } }
    }
    // single-feature positions: (fen, number of legal moves, must contain, must not contain)
    let feats: &[(&str, usize, &[&str], &[&str])] = &[
        ("8/8/8/KPp4r/8/8/8/7k w - c6 0 1", 0, &[], &["b5c6"]),            // ep pinned along the rank
        ("8/8/1k6/2b5/2pP4/8/5K2/8 b - d3 0 1", 0, &["c4d3"], &[]),        // ep legal (removes the checker? no: plain)
        ("5k2/8/8/8/8/8/8/4K2R w K - 0 1", 0, &["e1g1"], &[]),
        ("5k2/8/8/8/8/8/8/4K2r w K - 0 1", 0, &[], &["e1g1"]),              // no own rook
        ("4k3/8/8/8/8/8/8/R3K2R w KQ - 0 1", 0, &["e1g1", "e1c1"], &[]),
        ("4k3/8/8/8/8/5r2/8/R3K2R w KQ - 0 1", 0, &["e1c1"], &["e1g1"]),    // f1 attacked
        ("4k3/8/8/8/8/1r6/8/R3K2R w KQ - 0 1", 0, &["e1c1", "e1g1"], &[]),  // b1 attacked is fine
        ("4k3/8/8/8/8/4r3/8/R3K2R w KQ - 0 1", 0, &[], &["e1c1", "e1g1"]),  // in check
        ("4k3/8/8/8/8/8/8/RN2K2R w KQ - 0 1", 0, &["e1g1"], &["e1c1"]),     // b1 occupied
        ("7k/5Q2/6K1/8/8/8/8/8 b - - 0 1", 0, &[], &[]),                    // stalemate (count checked below)
    ];
    for (fen, _n, must, must_not) in feats {
        let p = Pos::from_fen(fen)?;
        let ms: Vec<String> = p.legal_moves().iter().map(|m| p.uci(m)).collect();
        for m in must.iter() { if !ms.iter().any(|x| x == m) { return Err(format!("oracle self-test: {} lacks {}", fen, m)); } }
        for m in must_not.iter() { if ms.iter().any(|x| x == m) { return Err(format!("oracle self-test: {} allows {}", fen, m)); } }
    }
    if Pos::from_fen("7k/5Q2/6K1/8/8/8/8/8 b - - 0 1")?.status() != Status::Stalemate { return Err("oracle self-test: stalemate".into()); }
    if Pos::from_fen("rnb1kbnr/pppp1ppp/4p3/8/6Pq/5P2/PPPPP2P/RNBQKBNR w KQkq - 1 3")?.status() != Status::Checkmate { return Err("oracle self-test: fool's mate".into()); }
    // SAN spot checks (FIDE C.10)
    let sans: &[(&str, &str, &str)] = &[
        ("4k3/8/8/8/8/5N2/8/1N2K3 w - - 0 1", "b1d2", "Nbd2"),
        ("4k3/8/8/8/8/5N2/8/1N2K3 w - - 0 1", "f3d2", "Nfd2"),
        ("4k3/8/8/8/R7/8/8/R3K3 w - - 0 1", "a1a3", "R1a3"),
        ("4k3/8/8/8/R7/8/8/R3K3 w - - 0 1", "a4a3", "R4a3"),
        ("1k6/8/8/8/4Q2Q/8/8/K6Q w - - 0 1", "h4e1", "Qh4e1"),
        ("4k3/8/8/3p4/4P3/8/8/4K3 w - - 0 1", "e4d5", "exd5"),
        ("4k3/P7/8/8/8/8/8/4K3 w - - 0 1", "a7a8q", "a8=Q+"),
        ("5k2/8/8/8/8/8/8/4K2R w K - 0 1", "e1g1", "O-O+"),
    ];
    for (fen, uci, want) in sans {
        let p = Pos::from_fen(fen)?;
        let legal = p.legal_moves();
        let m = legal.iter().find(|m| p.uci(m) == *uci).ok_or(format!("oracle self-test: {} not legal in {}", uci, fen))?;
        let got = p.san(m, &legal);
        if got != *want { return Err(format!("oracle self-test: SAN of {} in {} = {} (want {})", uci, fen, got, want)); }
    }
    Ok(nodes)
}
