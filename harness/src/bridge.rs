//! Engine <-> reference conversions. Uses only the engine's public API.
#![allow(dead_code)]

use crate::refchess::*;
use crate::rng::Rng;
use chess::board::castle_rights_bitmask::*;
use chess::board::color::Color;
use chess::board::piece::Piece;
use chess::board::Board;
use chess::chess_move::capture::Capture;
use chess::chess_move::castle::CastleChessMove;
use chess::chess_move::chess_move::ChessMove;
use chess::chess_move::en_passant::EnPassantChessMove;
use chess::chess_move::pawn_promotion::PawnPromotionChessMove;
use chess::chess_move::standard::StandardChessMove;
use common::bitboard::bitboard::Bitboard;

pub fn ecol(c: Col) -> Color { if c == Col::W { Color::White } else { Color::Black } }
pub fn rcol(c: Color) -> Col { if c == Color::White { Col::W } else { Col::B } }
pub fn epc(p: Pc) -> Piece { match p { Pc::P => Piece::Pawn, Pc::N => Piece::Knight, Pc::B => Piece::Bishop, Pc::R => Piece::Rook, Pc::Q => Piece::Queen, Pc::K => Piece::King } }
pub fn rpc(p: Piece) -> Pc { match p { Piece::Pawn => Pc::P, Piece::Knight => Pc::N, Piece::Bishop => Pc::B, Piece::Rook => Pc::R, Piece::Queen => Pc::Q, Piece::King => Pc::K } }
pub fn bb(s: u8) -> Bitboard { Bitboard(1u64 << s) }
pub fn sq_index(b: Bitboard) -> u8 { b.trailing_zeros() as u8 }

pub fn engine_rights(r: u8) -> u8 {
    let mut e = 0u8;
    if r & WK != 0 { e |= WHITE_KINGSIDE_RIGHTS; } if r & WQ != 0 { e |= WHITE_QUEENSIDE_RIGHTS; }
    if r & BK != 0 { e |= BLACK_KINGSIDE_RIGHTS; } if r & BQ != 0 { e |= BLACK_QUEENSIDE_RIGHTS; }
    e
}
pub fn ref_rights(r: u8) -> u8 {
    let mut o = 0;
    if r & WHITE_KINGSIDE_RIGHTS != 0 { o |= WK; } if r & WHITE_QUEENSIDE_RIGHTS != 0 { o |= WQ; }
    if r & BLACK_KINGSIDE_RIGHTS != 0 { o |= BK; } if r & BLACK_QUEENSIDE_RIGHTS != 0 { o |= BQ; }
    o
}

fn finish_setup(b: &mut Board, p: &Pos) {
    b.set_turn(ecol(p.turn));
    let lost = engine_rights(!p.rights & 15);
    if lost != 0 { b.lose_castle_rights(lost); }
    if let Some(e) = p.ep { b.push_en_passant_target(bb(e)); }
}

/// Direct set-up through the board-editing API (squares in ascending order). Clocks stay at
/// their initial values (half-move clock 0, move counter 1).
pub fn to_engine(p: &Pos) -> Board {
    let mut b = Board::new();
    for s in 0..64u8 { if let Some((c, pc)) = p.sq[s as usize] { b.put(bb(s), epc(pc), ecol(c)).unwrap(); } }
    finish_setup(&mut b, p);
    b
}

/// Same position, pieces put in a random order, with some put/remove detours, rights lost in
/// random single steps (C05: the key must not depend on how the board was built).
pub fn to_engine_shuffled(p: &Pos, rng: &mut Rng) -> Board {
    let mut b = Board::new();
    let mut order: Vec<u8> = (0..64u8).filter(|s| p.sq[*s as usize].is_some()).collect();
    rng.shuffle(&mut order);
    for &s in &order {
        let (c, pc) = p.sq[s as usize].unwrap();
        if rng.chance(0.2) {
            // detour: put a different piece, remove it again
            let other = *rng.pick(&[Pc::N, Pc::B, Pc::R, Pc::Q]);
            b.put(bb(s), epc(other), ecol(c.opp())).unwrap();
            b.remove(bb(s)).unwrap();
        }
        b.put(bb(s), epc(pc), ecol(c)).unwrap();
    }
    b.set_turn(ecol(p.turn));
    let mut lost: Vec<u8> = [WK, WQ, BK, BQ].iter().copied().filter(|f| p.rights & f == 0).collect();
    rng.shuffle(&mut lost);
    if rng.chance(0.5) { for f in lost { b.lose_castle_rights(engine_rights(f)); } }
    else { let all = lost.iter().fold(0, |a, f| a | f); if all != 0 { b.lose_castle_rights(engine_rights(all)); } }
    if let Some(e) = p.ep { b.push_en_passant_target(bb(e)); }
    b
}

/// The three rule-relevant observables read through the public API.
#[derive(Clone, PartialEq, Eq, Debug)]
pub struct Obs { pub sq: [Option<(Col, Pc)>; 64], pub rights: u8, pub ep: Option<u8> }

pub fn observe(b: &Board) -> Obs {
    let mut sq = [None; 64];
    for s in 0..64u8 { if let Some((pc, c)) = b.get(bb(s)) { sq[s as usize] = Some((rcol(c), rpc(pc))); } }
    let e = b.peek_en_passant_target();
    Obs { sq, rights: ref_rights(b.peek_castle_rights()), ep: if e.is_empty() { None } else { Some(e.trailing_zeros() as u8) } }
}

pub fn obs_of(p: &Pos) -> Obs { Obs { sq: p.sq, rights: p.rights, ep: p.ep } }

/// Reference position read back from an engine board (clocks included).
pub fn from_engine(b: &Board) -> Pos {
    let o = observe(b);
    Pos { sq: o.sq, turn: rcol(b.turn()), rights: o.rights, ep: o.ep, halfmove: b.halfmove_clock() as u32, plies: 0 }
}

pub fn obs_diff(got: &Obs, want: &Obs) -> String {
    let mut d = vec![];
    for s in 0..64 { if got.sq[s] != want.sq[s] { d.push(format!("{}: engine {:?} rules {:?}", sq_name(s as u8), got.sq[s], want.sq[s])); } }
    if got.rights != want.rights { d.push(format!("rights: engine {:04b} rules {:04b} (bits BQ BK WQ WK)", got.rights, want.rights)); }
    if got.ep != want.ep { d.push(format!("ep: engine {:?} rules {:?}", got.ep.map(sq_name), want.ep.map(sq_name))); }
    d.join("; ")
}

/// (kind, from, to, promotion, captured piece): kind 0 standard, 1 promotion, 2 en passant, 3 castle
pub type MoveKey = (u8, u8, u8, Option<Pc>, Option<Pc>);

pub fn ekey(m: &ChessMove) -> MoveKey {
    let from = m.from_square().trailing_zeros() as u8;
    let to = m.to_square().trailing_zeros() as u8;
    let cap = m.captures().map(|c| rpc(c.0));
    match m {
        ChessMove::Standard(_) => (0, from, to, None, cap),
        ChessMove::PawnPromotion(p) => (1, from, to, Some(rpc(p.promote_to_piece())), cap),
        ChessMove::EnPassant(_) => (2, from, to, None, cap),
        ChessMove::Castle(_) => (3, from, to, None, cap),
    }
}

pub fn rkey(m: &Mv) -> MoveKey {
    match m.kind {
        Kind::Quiet | Kind::Capture | Kind::DoublePush => (0, m.from, m.to, None, m.captured),
        Kind::Promo(p) | Kind::PromoCapture(p) => (1, m.from, m.to, Some(p), m.captured),
        Kind::EnPassant => (2, m.from, m.to, None, m.captured),
        Kind::CastleK | Kind::CastleQ => (3, m.from, m.to, None, None),
    }
}

pub fn key_str(k: &MoveKey) -> String {
    let kind = ["std", "promo", "ep", "castle"][k.0 as usize];
    format!("{}:{}{}{}{}", kind, sq_name(k.1), sq_name(k.2),
        k.3.map(|p| format!("={:?}", p)).unwrap_or_default(),
        k.4.map(|p| format!("x{:?}", p)).unwrap_or_default())
}

/// Engine move object built from a reference move through the public constructors only.
pub fn engine_move(m: &Mv, mover: Col) -> ChessMove {
    let cap = m.captured.map(|p| Capture(epc(p)));
    match m.kind {
        Kind::Quiet | Kind::Capture | Kind::DoublePush => ChessMove::Standard(StandardChessMove::new(bb(m.from), bb(m.to), cap)),
        Kind::Promo(p) | Kind::PromoCapture(p) => ChessMove::PawnPromotion(PawnPromotionChessMove::new(bb(m.from), bb(m.to), cap, epc(p))),
        Kind::EnPassant => ChessMove::EnPassant(EnPassantChessMove::new(bb(m.from), bb(m.to))),
        Kind::CastleK => ChessMove::Castle(CastleChessMove::castle_kingside(ecol(mover))),
        Kind::CastleQ => ChessMove::Castle(CastleChessMove::castle_queenside(ecol(mover))),
    }
}

/// Engine board reached by legal play: set up `root`, then apply the path with constructed
/// engine moves, toggling the turn after each (the protocol of the engine's game loops).
pub fn replay(root: &Pos, path: &[Mv]) -> Result<Board, String> {
    let mut b = to_engine(root);
    let mut p = root.clone();
    for m in path {
        let em = engine_move(m, p.turn);
        em.apply(&mut b).map_err(|e| format!("apply {} failed during replay: {:?}", p.uci(m), e))?;
        b.toggle_turn();
        p = p.make(m);
    }
    Ok(b)
}

pub fn path_str(root: &Pos, path: &[Mv]) -> Vec<String> {
    let mut p = root.clone();
    let mut out = vec![];
    for m in path { out.push(p.uci(m)); p = p.make(m); }
    out
}

pub fn end_of(root: &Pos, path: &[Mv]) -> Pos {
    let mut p = root.clone();
    for m in path { p = p.make(m); }
    p
}

/// Parse a path of UCI strings against the reference rules.
pub fn parse_path(root: &Pos, ucis: &[String]) -> Result<Vec<Mv>, String> {
    let mut p = root.clone();
    let mut out = vec![];
    for u in ucis {
        let legal = p.legal_moves();
        let m = legal.iter().find(|m| p.uci(m) == *u).ok_or(format!("{} is not legal in {}", u, p.to_fen()))?;
        out.push(*m);
        p = p.make(m);
    }
    Ok(out)
}
