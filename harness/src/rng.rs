//! Small deterministic PRNG (splitmix64). Every random choice of the harness comes from
//! a stream derived from (VERIF_SEED, tag), so runs are reproducible.

#[derive(Clone, Debug)]
pub struct Rng {
    s: u64,
}

impl Rng {
    pub fn new(seed: u64) -> Rng {
        let mut r = Rng { s: seed ^ 0x9E37_79B9_7F4A_7C15 };
        r.next_u64();
        r
    }

    /// Independent stream for a named purpose.
    pub fn fork(&self, tag: u64) -> Rng {
        let mut r = Rng { s: self.s ^ tag.wrapping_mul(0xD6E8_FEB8_6659_FD93).rotate_left(17) };
        r.next_u64();
        r.next_u64();
        r
    }

    pub fn next_u64(&mut self) -> u64 {
        self.s = self.s.wrapping_add(0x9E37_79B9_7F4A_7C15);
        let mut z = self.s;
        z = (z ^ (z >> 30)).wrapping_mul(0xBF58_476D_1CE4_E5B9);
        z = (z ^ (z >> 27)).wrapping_mul(0x94D0_49BB_1331_11EB);
        z ^ (z >> 31)
    }

    /// Uniform in 0..n (n > 0).
    pub fn below(&mut self, n: usize) -> usize {
        debug_assert!(n > 0);
        ((self.next_u64() >> 11) % (n as u64)) as usize
    }

    pub fn chance(&mut self, p: f64) -> bool {
        ((self.next_u64() >> 11) as f64) / ((1u64 << 53) as f64) < p
    }

    pub fn pick<'a, T>(&mut self, xs: &'a [T]) -> &'a T {
        &xs[self.below(xs.len())]
    }

    pub fn shuffle<T>(&mut self, xs: &mut [T]) {
        for i in (1..xs.len()).rev() {
            let j = self.below(i + 1);
            xs.swap(i, j);
        }
    }

    pub fn state(&self) -> u64 {
        self.s
    }
}

pub fn tag(s: &str) -> u64 {
    let mut h: u64 = 0xcbf2_9ce4_8422_2325;
    for b in s.bytes() {
        h ^= b as u64;
        h = h.wrapping_mul(0x0000_0100_0000_01B3);
    }
    h
}
