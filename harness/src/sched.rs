//! Controlled scheduler for the parallel search (C09): a baton-passing scheduler driven from
//! the engine's yield-point hooks, so that exactly one root-move task runs between consecutive
//! shared-cache operations and the harness chooses which (DESIGN 4/C09, A.4).
#![allow(dead_code)]

use crate::mon::SearchSink;
use crate::rng::Rng;
use chess::verif::SearchEvent;
use std::cell::Cell;
use std::collections::{BTreeMap, HashMap};
use std::sync::{Arc, Condvar, Mutex};
use std::time::{Duration, Instant};

thread_local! { static CUR_TASK: Cell<usize> = const { Cell::new(usize::MAX) }; }

#[derive(Clone, Copy, Debug, PartialEq, Eq)]
pub enum Strategy { Random, RunToCompletion, Priorities, PreemptionBounded, Reverse, RoundRobin, Replay, ConflictFirst(usize), ConflictLast(usize), WriteThenRead { key: u64, writer: usize, reader: usize } }

#[derive(Clone, Debug)]
pub struct TraceEv { pub task: u32, pub write: bool, pub key: u64, pub value: Option<i16> }

pub struct St {
    parked: BTreeMap<usize, ()>,
    running: Option<usize>,
    granted: Option<usize>,
    begun: usize,
    ended: usize,
    total: usize,
    pool: usize,
    unsettled: bool,
    settle_deadline: Option<Instant>,
    strategy: Strategy,
    rng: Rng,
    prio: HashMap<usize, u64>,
    change_points: Vec<usize>,
    preempt_points: Vec<usize>,
    last: Option<usize>,
    replay: Vec<u32>,
    pub replay_mismatch: bool,
    pub decisions: Vec<u32>,
    pub trace: Vec<TraceEv>,
    pub trace_hash: u64,
    pub late_arrivals: u64,
    pub cross_task_hits: u64,
    pub prewarmed_hits: u64,
    pub own_hits: u64,
    pub misses: u64,
    pub writes: u64,
    pub rewrites_different: u64,
    writer: HashMap<u64, (usize, i16)>,
    pub conflicts: Vec<(u64, usize, usize)>, // (key, writer task, reader task)
    abort: bool,
    last_activity: Instant,
    keep_trace: bool,
    /// phase of a WriteThenRead schedule: 0 = run the writer, 1 = run the reader, 2 = free
    wtr_phase: u8,
    pub wtr_completed: bool,
    /// distinct tasks that looked a key up (at most three kept per key)
    readers: HashMap<u64, Vec<usize>>,
    /// keys one task stored two different values under, with another task that looks the key up:
    /// (key, writer, reader). Empty for a cache whose entries are final when stored.
    pub rewrite_conflicts: Vec<(u64, usize, usize)>,
    rewritten: HashMap<u64, usize>,
}

pub struct Scheduler { st: Mutex<St>, cvs: Vec<Condvar>, settle_ms: u64 }

const MAX_TASKS: usize = 256;

impl Scheduler {
    pub fn new(total: usize, pool: usize, strategy: Strategy, seed: u64, replay: Vec<u32>, keep_trace: bool) -> Arc<Scheduler> {
        let mut rng = Rng::new(seed);
        let horizon = 400 + rng.below(6000);
        let change_points = (0..3).map(|_| rng.below(horizon)).collect();
        let preempt_points = (0..2 + rng.below(3)).map(|_| rng.below(horizon)).collect();
        Arc::new(Scheduler {
            st: Mutex::new(St {
                parked: BTreeMap::new(), running: None, granted: None, begun: 0, ended: 0, total, pool,
                unsettled: true, settle_deadline: None, strategy, rng, prio: HashMap::new(), change_points, preempt_points,
                last: None, replay, replay_mismatch: false, decisions: vec![], trace: vec![], trace_hash: 0xcbf2_9ce4_8422_2325,
                late_arrivals: 0, cross_task_hits: 0, prewarmed_hits: 0, own_hits: 0, misses: 0, writes: 0, rewrites_different: 0,
                writer: HashMap::new(), conflicts: vec![], abort: false, last_activity: Instant::now(), keep_trace, wtr_phase: 0, wtr_completed: false, readers: HashMap::new(), rewrite_conflicts: vec![], rewritten: HashMap::new(),
            }),
            cvs: (0..MAX_TASKS).map(|_| Condvar::new()).collect(),
            settle_ms: 30,
        })
    }

    pub fn with_state<R>(&self, f: impl FnOnce(&St) -> R) -> R { f(&self.st.lock().unwrap()) }

    /// Let every parked task run freely from now on (watchdog / teardown).
    pub fn abort(&self) {
        let mut st = self.st.lock().unwrap();
        st.abort = true;
        for cv in &self.cvs { cv.notify_all(); }
    }

    pub fn idle_for(&self) -> Duration { self.st.lock().unwrap().last_activity.elapsed() }
    pub fn finished(&self) -> bool { let st = self.st.lock().unwrap(); st.ended >= st.total }

    fn choose(st: &mut St) -> usize {
        let parked: Vec<usize> = st.parked.keys().copied().collect();
        let n = st.decisions.len();
        let pick = match st.strategy {
            Strategy::Random => parked[st.rng.below(parked.len())],
            Strategy::RunToCompletion => match st.last { Some(l) if st.parked.contains_key(&l) => l, _ => parked[st.rng.below(parked.len())] },
            Strategy::Reverse => match st.last { Some(l) if st.parked.contains_key(&l) => l, _ => *parked.last().unwrap() },
            Strategy::RoundRobin => match st.last { Some(l) => *parked.iter().find(|t| **t > l).unwrap_or(&parked[0]), None => parked[0] },
            Strategy::Priorities => {
                for t in &parked { if !st.prio.contains_key(t) { let r = st.rng.next_u64() | (1 << 32); st.prio.insert(*t, r); } }
                if st.change_points.contains(&n) { if let Some(l) = st.last { let low = st.rng.next_u64() & 0xffff; st.prio.insert(l, low); } }
                *parked.iter().max_by_key(|t| st.prio[t]).unwrap()
            }
            Strategy::PreemptionBounded => {
                let cur = match st.last { Some(l) if st.parked.contains_key(&l) => l, _ => parked[0] };
                if st.preempt_points.contains(&n) && parked.len() > 1 {
                    let others: Vec<usize> = parked.iter().copied().filter(|t| *t != cur).collect();
                    others[st.rng.below(others.len())]
                } else { cur }
            }
            Strategy::ConflictFirst(t) => {
                // run task t to completion first, then the others in index order, each to completion
                if st.parked.contains_key(&t) { t } else { match st.last { Some(l) if st.parked.contains_key(&l) => l, _ => parked[0] } }
            }
            Strategy::ConflictLast(t) => {
                let others: Vec<usize> = parked.iter().copied().filter(|x| *x != t).collect();
                if others.is_empty() { t } else { match st.last { Some(l) if l != t && st.parked.contains_key(&l) => l, _ => others[0] } }
            }
            Strategy::WriteThenRead { writer, reader, .. } => {
                let fallback = match st.last { Some(l) if st.parked.contains_key(&l) => l, _ => parked[0] };
                match st.wtr_phase {
                    0 => if st.parked.contains_key(&writer) { writer } else { st.wtr_phase = 2; fallback },
                    1 => if st.parked.contains_key(&reader) { reader } else { st.wtr_phase = 2; fallback },
                    _ => fallback,
                }
            }
            Strategy::Replay => {
                let want = st.replay.get(n).copied().map(|x| x as usize);
                match want { Some(w) if st.parked.contains_key(&w) => w, _ => { st.replay_mismatch = true; parked[0] } }
            }
        };
        st.decisions.push(pick as u32);
        pick
    }

    fn dispatch(&self, st: &mut St) {
        if st.abort || st.running.is_some() || st.granted.is_some() || st.parked.is_empty() { return; }
        let expected = st.pool.min(st.total.saturating_sub(st.ended)).max(1);
        if st.strategy == Strategy::Replay {
            // wait for the recorded task (every task has its own thread in replay pools)
            let want = st.replay.get(st.decisions.len()).copied().map(|x| x as usize);
            if let Some(w) = want {
                if !st.parked.contains_key(&w) {
                    let dl = *st.settle_deadline.get_or_insert_with(|| Instant::now() + Duration::from_millis(3000));
                    if Instant::now() < dl { return; }
                }
            }
            st.settle_deadline = None;
        } else if st.unsettled && st.parked.len() < expected {
            let dl = *st.settle_deadline.get_or_insert_with(|| Instant::now() + Duration::from_millis(self.settle_ms));
            if Instant::now() < dl { return; }
            st.late_arrivals += 1;
        }
        st.unsettled = false;
        st.settle_deadline = None;
        let t = Self::choose(st);
        st.granted = Some(t);
        st.last_activity = Instant::now();
        self.cvs[t % MAX_TASKS].notify_all();
    }

    fn park(&self, task: usize) {
        let mut st = self.st.lock().unwrap();
        if st.abort { return; }
        if st.running == Some(task) { st.running = None; }
        st.parked.insert(task, ());
        loop {
            if st.abort { st.parked.remove(&task); return; }
            if st.granted == Some(task) {
                st.granted = None; st.running = Some(task); st.last = Some(task);
                st.parked.remove(&task);
                return;
            }
            self.dispatch(&mut st);
            if st.granted == Some(task) { continue; }
            let wait = if st.unsettled || st.strategy == Strategy::Replay { 2 } else { 25 };
            let (g, _) = self.cvs[task % MAX_TASKS].wait_timeout(st, Duration::from_millis(wait)).unwrap();
            st = g;
        }
    }

    fn task_end(&self, task: usize) {
        let mut st = self.st.lock().unwrap();
        st.ended += 1;
        st.unsettled = true;
        st.settle_deadline = None;
        if st.running == Some(task) { st.running = None; }
        st.last_activity = Instant::now();
        self.dispatch(&mut st);
        // wake one parked waiter so that somebody polls the settle deadline
        if let Some((&t, _)) = st.parked.iter().next() { self.cvs[t % MAX_TASKS].notify_all(); }
    }

    fn observe(&self, task: usize, write: bool, key: u64, value: Option<i16>) {
        let mut st = self.st.lock().unwrap();
        let mut h = st.trace_hash;
        for w in [task as u64, write as u64, key, value.map(|v| v as u16 as u64 + 1).unwrap_or(0)] { h ^= w; h = h.wrapping_mul(0x0000_0100_0000_01B3); h ^= h >> 31; }
        st.trace_hash = h;
        if let Strategy::WriteThenRead { key: k, writer, reader } = st.strategy {
            if key == k {
                if write && task == writer && st.wtr_phase == 0 { st.wtr_phase = 1; }
                else if !write && task == reader && st.wtr_phase == 1 { st.wtr_phase = 2; st.wtr_completed = true; }
            }
        }
        if write {
            st.writes += 1;
            let v = value.unwrap();
            if let Some((_, old)) = st.writer.get(&key) { if *old != v {
                st.rewrites_different += 1;
                if st.rewritten.len() < 100_000 { st.rewritten.insert(key, task); }
                if st.rewrite_conflicts.len() < 64 { if let Some(rd) = st.readers.get(&key).and_then(|r| r.iter().copied().find(|t| *t != task)) { st.rewrite_conflicts.push((key, task, rd)); } }
            } }
            st.writer.insert(key, (task, v));
        } else {
            { let r = st.readers.entry(key).or_default(); if r.len() < 3 && !r.contains(&task) { r.push(task); } }
            if let Some(&w) = st.rewritten.get(&key) { if w != task && st.rewrite_conflicts.len() < 64 { st.rewrite_conflicts.push((key, w, task)); } }
            match value {
                None => st.misses += 1,
                Some(_) => match st.writer.get(&key).copied() {
                    Some((w, _)) if w == task => st.own_hits += 1,
                    Some((w, _)) => { st.cross_task_hits += 1; if st.conflicts.len() < 64 { st.conflicts.push((key, w, task)); } }
                    None => st.prewarmed_hits += 1,
                },
            }
        }
        if st.keep_trace && st.trace.len() < 200_000 { st.trace.push(TraceEv { task: task as u32, write, key, value }); }
    }
}

impl SearchSink for Scheduler {
    fn event(&self, ev: &SearchEvent) {
        match ev {
            SearchEvent::TaskBegin { index } => {
                CUR_TASK.with(|t| t.set(*index));
                { let mut st = self.st.lock().unwrap(); st.begun += 1; }
                self.park(*index);
            }
            SearchEvent::TaskEnd { index } => { self.task_end(*index); CUR_TASK.with(|t| t.set(usize::MAX)); }
            SearchEvent::BeforeCacheRead { .. } | SearchEvent::BeforeCacheWrite { .. } => {
                let t = CUR_TASK.with(|t| t.get());
                if t != usize::MAX { self.park(t); }
            }
            SearchEvent::AfterCacheRead { key, hit } => { let t = CUR_TASK.with(|t| t.get()); self.observe(t, false, *key, *hit); }
            SearchEvent::AfterCacheWrite { key, value } => { let t = CUR_TASK.with(|t| t.get()); self.observe(t, true, *key, Some(*value)); }
            _ => {}
        }
    }
}

/// Free-running stress sink: no serialisation, random micro-sleeps / yields at the yield
/// points, trace recorded in the true (under-lock) order.
pub struct Stress { rng: Mutex<Rng>, pub inner: Arc<Scheduler>, sleep_one_in: usize }

impl Stress {
    pub fn new(seed: u64, sleep_one_in: usize) -> Arc<Stress> {
        let inner = Scheduler::new(usize::MAX, 1, Strategy::Random, seed, vec![], false);
        inner.abort();
        Arc::new(Stress { rng: Mutex::new(Rng::new(seed)), inner, sleep_one_in })
    }
}

impl SearchSink for Stress {
    fn event(&self, ev: &SearchEvent) {
        match ev {
            SearchEvent::TaskBegin { index } => { CUR_TASK.with(|t| t.set(*index)); }
            SearchEvent::TaskEnd { .. } => { CUR_TASK.with(|t| t.set(usize::MAX)); }
            SearchEvent::BeforeCacheRead { .. } | SearchEvent::BeforeCacheWrite { .. } => {
                let r = { let mut g = self.rng.lock().unwrap(); g.below(self.sleep_one_in.max(1) * 4) };
                if r == 0 { std::thread::sleep(Duration::from_micros(50)); } else if r < 4 { std::thread::yield_now(); }
            }
            SearchEvent::AfterCacheRead { key, hit } => { let t = CUR_TASK.with(|t| t.get()); self.inner.observe(t, false, *key, *hit); }
            SearchEvent::AfterCacheWrite { key, value } => { let t = CUR_TASK.with(|t| t.get()); self.inner.observe(t, true, *key, Some(*value)); }
            _ => {}
        }
    }
}
