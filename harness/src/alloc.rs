//! Global allocator that parks very large blocks on free and hands them back on the next
//! request of the same size: `MoveGenerator::new()` allocates a 2.2 GB table every time and
//! page-faulting it in dominates the cost of a fresh generator. Behaviour of the code under
//! test is unchanged (it initialises what it reads). `VERIF_SYSTEM_ALLOC=1` switches it off.
use std::alloc::{GlobalAlloc, Layout, System};
use std::sync::atomic::{AtomicU8, Ordering};
use std::sync::Mutex;

pub struct Recycling;

const BIG: usize = 256 << 20;
const MAX_PARKED: usize = 24;

static PARKED: Mutex<Vec<(usize, usize, usize)>> = Mutex::new(Vec::new());
static MODE: AtomicU8 = AtomicU8::new(0); // 0 unknown, 1 recycle, 2 system

fn recycle() -> bool {
    match MODE.load(Ordering::Relaxed) {
        1 => true,
        2 => false,
        _ => {
            // std::env::var allocates (small blocks): fine, they do not come back here
            MODE.store(1, Ordering::Relaxed);
            let on = std::env::var_os("VERIF_SYSTEM_ALLOC").is_none();
            MODE.store(if on { 1 } else { 2 }, Ordering::Relaxed);
            on
        }
    }
}

unsafe impl GlobalAlloc for Recycling {
    unsafe fn alloc(&self, layout: Layout) -> *mut u8 {
        if layout.size() >= BIG && recycle() {
            if let Ok(mut p) = PARKED.lock() {
                if let Some(i) = p.iter().position(|&(_, s, a)| s == layout.size() && a == layout.align()) {
                    return p.swap_remove(i).0 as *mut u8;
                }
            }
        }
        System.alloc(layout)
    }
    unsafe fn dealloc(&self, ptr: *mut u8, layout: Layout) {
        if layout.size() >= BIG && recycle() {
            if let Ok(mut p) = PARKED.lock() {
                if p.len() < MAX_PARKED { p.push((ptr as usize, layout.size(), layout.align())); return; }
            }
        }
        System.dealloc(ptr, layout)
    }
    unsafe fn alloc_zeroed(&self, layout: Layout) -> *mut u8 {
        if layout.size() >= BIG && recycle() {
            let p = self.alloc(layout);
            if !p.is_null() { std::ptr::write_bytes(p, 0, layout.size()); }
            return p;
        }
        System.alloc_zeroed(layout)
    }
    unsafe fn realloc(&self, ptr: *mut u8, layout: Layout, new_size: usize) -> *mut u8 {
        if layout.size() >= BIG || new_size >= BIG {
            let new_layout = Layout::from_size_align_unchecked(new_size, layout.align());
            let n = self.alloc(new_layout);
            if !n.is_null() {
                std::ptr::copy_nonoverlapping(ptr, n, layout.size().min(new_size));
                self.dealloc(ptr, layout);
            }
            return n;
        }
        System.realloc(ptr, layout, new_size)
    }
}
