//! Full observable snapshot of an engine board (for "bit-for-bit" comparisons).
#![allow(dead_code)]

use crate::bridge::bb;
use chess::board::color::Color;
use chess::board::piece::Piece;
use chess::board::Board;
use chess::verif::BoardInternals;

pub const PIECES: [Piece; 6] = [Piece::Pawn, Piece::Knight, Piece::Bishop, Piece::Rook, Piece::Queen, Piece::King];

#[derive(Clone, PartialEq, Eq, Debug)]
pub struct Snapshot {
    pub squares: [u8; 64],
    pub piece_bb: [u64; 12],
    pub occ: [u64; 3],
    pub turn: u8,
    pub rights: u8,
    pub ep: u64,
    pub halfmove: u64,
    pub fullmove: u64,
    pub hash: u64,
    pub max_seen: u64,
    pub internals: BoardInternals,
}

impl Snapshot {
    pub fn take(b: &Board) -> Snapshot {
        let mut squares = [0u8; 64];
        for s in 0..64u8 {
            squares[s as usize] = match b.get(bb(s)) { None => 0, Some((p, c)) => 1 + p as u8 + if c == Color::Black { 6 } else { 0 } };
        }
        let mut piece_bb = [0u64; 12];
        for (i, p) in PIECES.iter().enumerate() {
            piece_bb[i] = b.pieces(Color::White).locate(*p).0;
            piece_bb[6 + i] = b.pieces(Color::Black).locate(*p).0;
        }
        Snapshot {
            squares, piece_bb,
            occ: [b.pieces(Color::White).occupied().0, b.pieces(Color::Black).occupied().0, b.occupied().0],
            turn: b.turn() as u8,
            rights: b.peek_castle_rights(),
            ep: b.peek_en_passant_target().0,
            halfmove: b.halfmove_clock() as u64,
            fullmove: b.fullmove_clock() as u64,
            hash: b.current_position_hash(),
            max_seen: b.max_seen_position_count() as u64,
            internals: b.verif_internals(),
        }
    }

    pub fn diff(&self, other: &Snapshot) -> Option<String> {
        if self == other { return None; }
        let mut d = vec![];
        if self.squares != other.squares { d.push("placement (get)".to_string()); }
        if self.piece_bb != other.piece_bb { d.push("piece bitboards".to_string()); }
        if self.occ != other.occ { d.push("occupancy".to_string()); }
        if self.turn != other.turn { d.push("turn".to_string()); }
        if self.rights != other.rights { d.push(format!("rights {:04b}->{:04b}", self.rights, other.rights)); }
        if self.ep != other.ep { d.push(format!("ep {:#x}->{:#x}", self.ep, other.ep)); }
        if self.halfmove != other.halfmove { d.push(format!("halfmove {}->{}", self.halfmove, other.halfmove)); }
        if self.fullmove != other.fullmove { d.push(format!("move counter {}->{}", self.fullmove, other.fullmove)); }
        if self.hash != other.hash { d.push("position key".to_string()); }
        if self.max_seen != other.max_seen { d.push(format!("max_seen {}->{}", self.max_seen, other.max_seen)); }
        let (a, b) = (&self.internals, &other.internals);
        if a.en_passant_target_stack != b.en_passant_target_stack { d.push(format!("ep stack depth {}->{}", a.en_passant_target_stack.len(), b.en_passant_target_stack.len())); }
        if a.castle_rights_stack != b.castle_rights_stack { d.push(format!("rights stack depth {}->{}", a.castle_rights_stack.len(), b.castle_rights_stack.len())); }
        if a.halfmove_clock_stack != b.halfmove_clock_stack { d.push(format!("halfmove stack depth {}->{}", a.halfmove_clock_stack.len(), b.halfmove_clock_stack.len())); }
        if a.position_counts != b.position_counts { d.push("repetition map".to_string()); }
        if a.max_seen_position_count_stack != b.max_seen_position_count_stack { d.push("repetition stack".to_string()); }
        Some(d.join(", "))
    }
}
