//! Workload generators: corpus, exhaustive walks, consistent random set-ups, biased random games.
#![allow(dead_code)]

use crate::refchess::*;
use crate::rng::Rng;
use std::collections::{HashMap, HashSet};

pub const CORPUS_TEXT: &str = include_str!("../../corpus/positions.epd");

#[derive(Clone, Debug)]
pub struct Case {
    pub root: Pos,
    pub path: Vec<Mv>,
    pub pos: Pos,
    pub origin: &'static str,
}

impl Case {
    pub fn setup(p: Pos, origin: &'static str) -> Case { Case { root: p.clone(), path: vec![], pos: p, origin } }
    pub fn json(&self) -> serde_json::Value {
        serde_json::json!({ "origin": self.origin, "root_fen": self.root.to_fen(), "path": crate::bridge::path_str(&self.root, &self.path), "fen": self.pos.to_fen() })
    }
}

/// Corpus positions (+ their colour-mirrored twins), each checked for consistency.
pub fn corpus() -> Vec<(Pos, String)> {
    let mut out = vec![];
    let mut seen = HashSet::new();
    for line in CORPUS_TEXT.lines() {
        let line = line.trim();
        if line.is_empty() || line.starts_with('#') { continue; }
        let (fen, tag) = match line.split_once(';') { Some((f, t)) => (f.trim(), t.trim().to_string()), None => (line, String::new()) };
        let p = match Pos::from_fen(fen) { Ok(p) => p, Err(e) => { eprintln!("harness error: corpus line {:?}: {}", line, e); std::process::exit(2); } };
        if !p.is_consistent() { eprintln!("harness error: corpus position is not consistent: {}", fen); std::process::exit(2); }
        if seen.insert(p.key()) { out.push((p.clone(), tag.clone())); }
        let t = p.twin_mirror();
        assert!(t.is_consistent());
        if seen.insert(t.key()) { out.push((t, format!("{} (mirrored)", tag))); }
    }
    out
}

/// Exhaustive walk to `depth` plies; positions de-duplicated by the reference key.
pub fn walk(root: &Pos, depth: u32, seen: &mut HashSet<PosKey>, out: &mut Vec<Case>, origin: &'static str, cap: usize) {
    fn rec(root: &Pos, p: &Pos, path: &mut Vec<Mv>, depth: u32, seen: &mut HashSet<PosKey>, out: &mut Vec<Case>, origin: &'static str, cap: usize) {
        if out.len() >= cap { return; }
        if seen.insert(p.key()) { out.push(Case { root: root.clone(), path: path.clone(), pos: p.clone(), origin }); }
        if depth == 0 { return; }
        for m in p.legal_moves() {
            path.push(m);
            rec(root, &p.make(&m), path, depth - 1, seen, out, origin, cap);
            path.pop();
        }
    }
    let mut path = vec![];
    rec(root, root, &mut path, depth, seen, out, origin, cap);
}

fn empty_squares(p: &Pos, ranks: std::ops::RangeInclusive<u8>) -> Vec<u8> {
    (0..64u8).filter(|s| p.sq[*s as usize].is_none() && ranks.contains(&(s / 8))).collect()
}

fn place_random(p: &mut Pos, rng: &mut Rng, c: Col, pc: Pc) -> bool {
    let ranks = if pc == Pc::P { 1..=6 } else { 0..=7 };
    let e = empty_squares(p, ranks);
    if e.is_empty() { return false; }
    let s = *rng.pick(&e);
    p.sq[s as usize] = Some((c, pc));
    true
}

/// One attempt at a consistent random set-up (DESIGN A.2); None if the attempt is rejected.
fn try_setup(rng: &mut Rng, profile: usize) -> Option<Pos> {
    let mut p = Pos::empty();
    let home = rng.chance(if profile == 5 { 1.0 } else { 0.3 });
    // kings
    if home {
        p.sq[4] = Some((Col::W, Pc::K));
        p.sq[60] = Some((Col::B, Pc::K));
        for (s, c) in [(0usize, Col::W), (7, Col::W), (56, Col::B), (63, Col::B)] { if rng.chance(0.7) { p.sq[s] = Some((c, Pc::R)); } }
        if rng.chance(0.3) { p.sq[4] = None; place_random(&mut p, rng, Col::W, Pc::K); }
        if rng.chance(0.3) { p.sq[60] = None; place_random(&mut p, rng, Col::B, Pc::K); }
    } else {
        place_random(&mut p, rng, Col::W, Pc::K);
        place_random(&mut p, rng, Col::B, Pc::K);
    }
    let both = [Col::W, Col::B];
    match profile {
        0 => { // sparse endgame
            for _ in 0..1 + rng.below(4) { let c = *rng.pick(&both); let pc = *rng.pick(&[Pc::P, Pc::P, Pc::N, Pc::B, Pc::R, Pc::Q]); place_random(&mut p, rng, c, pc); }
        }
        1 | 5 => { // middlegame / castle-focused
            for _ in 0..4 + rng.below(18) { let c = *rng.pick(&both); let pc = *rng.pick(&[Pc::P, Pc::P, Pc::P, Pc::P, Pc::N, Pc::B, Pc::R, Pc::Q, Pc::N, Pc::B]); place_random(&mut p, rng, c, pc); }
        }
        2 => { // like-piece dense
            let c = *rng.pick(&both); let pc = *rng.pick(&[Pc::N, Pc::R, Pc::Q, Pc::B, Pc::N, Pc::Q]);
            for _ in 0..2 + rng.below(4) { place_random(&mut p, rng, c, pc); }
            for _ in 0..rng.below(6) { let c2 = *rng.pick(&both); let pc2 = *rng.pick(&[Pc::P, Pc::N, Pc::B, Pc::R, Pc::Q, Pc::P]); place_random(&mut p, rng, c2, pc2); }
        }
        3 => { // promotion-ready pawns
            for _ in 0..1 + rng.below(4) { let e: Vec<u8> = (48..56u8).filter(|s| p.sq[*s as usize].is_none()).collect(); if !e.is_empty() { p.sq[*rng.pick(&e) as usize] = Some((Col::W, Pc::P)); } }
            for _ in 0..1 + rng.below(4) { let e: Vec<u8> = (8..16u8).filter(|s| p.sq[*s as usize].is_none()).collect(); if !e.is_empty() { p.sq[*rng.pick(&e) as usize] = Some((Col::B, Pc::P)); } }
            for _ in 0..rng.below(6) { // targets on the back ranks
                let c = *rng.pick(&both); let pc = *rng.pick(&[Pc::N, Pc::B, Pc::R, Pc::Q, Pc::R]);
                let range = if c == Col::B { 56..64u8 } else { 0..8u8 };
                let e: Vec<u8> = range.filter(|s| p.sq[*s as usize].is_none()).collect();
                if !e.is_empty() { p.sq[*rng.pick(&e) as usize] = Some((c, pc)); }
            }
            for _ in 0..rng.below(5) { let c = *rng.pick(&both); let pc = *rng.pick(&[Pc::P, Pc::N, Pc::B, Pc::R, Pc::Q]); place_random(&mut p, rng, c, pc); }
        }
        _ => { // material extreme
            let c = *rng.pick(&both);
            for _ in 0..3 + rng.below(7) { place_random(&mut p, rng, c, Pc::Q); }
            for pc in [Pc::R, Pc::R, Pc::B, Pc::B, Pc::N, Pc::N] { if rng.chance(0.5) { place_random(&mut p, rng, c, pc); } }
            for _ in 0..rng.below(4) { let pc = *rng.pick(&[Pc::P, Pc::N, Pc::B, Pc::R, Pc::Q]); place_random(&mut p, rng, c.opp(), pc); }
        }
    }
    // rights: any subset of those supported by home squares
    let (wkh, bkh) = (p.sq[4] == Some((Col::W, Pc::K)), p.sq[60] == Some((Col::B, Pc::K)));
    if wkh && p.sq[7] == Some((Col::W, Pc::R)) && rng.chance(0.6) { p.rights |= WK; }
    if wkh && p.sq[0] == Some((Col::W, Pc::R)) && rng.chance(0.6) { p.rights |= WQ; }
    if bkh && p.sq[63] == Some((Col::B, Pc::R)) && rng.chance(0.6) { p.rights |= BK; }
    if bkh && p.sq[56] == Some((Col::B, Pc::R)) && rng.chance(0.6) { p.rights |= BQ; }
    p.turn = *rng.pick(&both);
    if !p.is_consistent() { return None; }
    // en passant
    if rng.chance(0.35) {
        let mover = p.turn.opp();
        let (pawn_rank, dir): (u8, i8) = if mover == Col::W { (3, -1) } else { (4, 1) }; // squares behind the pawn
        let mut cands = vec![];
        for f in 0..8u8 {
            let s = pawn_rank * 8 + f;
            if p.sq[s as usize] == Some((mover, Pc::P)) {
                let b1 = (s as i8 + 8 * dir) as u8; let b2 = (s as i8 + 16 * dir) as u8;
                if p.sq[b1 as usize].is_none() && p.sq[b2 as usize].is_none() { cands.push((s, b1)); }
            }
        }
        if cands.is_empty() && rng.chance(0.6) {
            // make one: put a pawn of the side that just moved on its fourth rank
            let f = rng.below(8) as u8; let s = pawn_rank * 8 + f;
            let b1 = (s as i8 + 8 * dir) as u8; let b2 = (s as i8 + 16 * dir) as u8;
            if p.sq[s as usize].is_none() && p.sq[b1 as usize].is_none() && p.sq[b2 as usize].is_none() {
                p.sq[s as usize] = Some((mover, Pc::P)); cands.push((s, b1));
            }
        }
        if !cands.is_empty() {
            let (s, target) = *rng.pick(&cands);
            let mut q = p.clone();
            q.ep = Some(target);
            if rng.chance(0.75) {
                let mut sides: Vec<i8> = vec![-1, 1]; rng.shuffle(&mut sides);
                for d in sides {
                    let f = (s % 8) as i8 + d;
                    if (0..8).contains(&f) { let n = (s as i8 + d) as usize; if q.sq[n].is_none() { q.sq[n] = Some((p.turn, Pc::P)); if rng.chance(0.7) { break; } } }
                }
            }
            if rng.chance(0.3) {
                // pinned-ep candidates: own king and an enemy rook/queen on the pawn's rank
                let rank = s / 8;
                let e: Vec<u8> = (rank * 8..rank * 8 + 8).filter(|x| q.sq[*x as usize].is_none()).collect();
                if e.len() >= 2 {
                    if let Some(k) = q.king_sq(p.turn) { q.sq[k as usize] = None; }
                    let mut e2 = e.clone(); rng.shuffle(&mut e2);
                    q.sq[e2[0] as usize] = Some((p.turn, Pc::K));
                    q.sq[e2[1] as usize] = Some((mover, *rng.pick(&[Pc::R, Pc::Q])));
                    if q.sq[4] != Some((Col::W, Pc::K)) { q.rights &= !(WK | WQ); }
                    if q.sq[60] != Some((Col::B, Pc::K)) { q.rights &= !(BK | BQ); }
                }
            }
            if q.is_consistent() { return Some(q); }
            let mut q2 = p.clone(); q2.ep = Some(target);
            if q2.is_consistent() { return Some(q2); }
        }
    }
    if p.is_consistent() { Some(p) } else { None }
}

pub fn random_setup(rng: &mut Rng) -> Pos {
    loop {
        let profile = *rng.pick(&[0usize, 0, 1, 1, 1, 2, 2, 3, 3, 4, 5, 5]);
        if let Some(p) = try_setup(rng, profile) { return p; }
    }
}

pub fn random_setup_profile(rng: &mut Rng, profile: usize) -> Pos {
    loop { if let Some(p) = try_setup(rng, profile) { return p; } }
}

/// Sparse K+x v K(+y) endings (mate- and stalemate-rich, recurrence-rich).
pub fn random_ending(rng: &mut Rng) -> Pos {
    loop {
        let mut p = Pos::empty();
        place_random(&mut p, rng, Col::W, Pc::K);
        place_random(&mut p, rng, Col::B, Pc::K);
        let strong = *rng.pick(&[Col::W, Col::B]);
        let set: &[Pc] = *rng.pick(&[&[Pc::Q][..], &[Pc::R][..], &[Pc::R, Pc::R][..], &[Pc::B, Pc::N][..], &[Pc::Q, Pc::P][..], &[Pc::P][..], &[Pc::Q, Pc::Q][..], &[Pc::B, Pc::B][..]]);
        for pc in set { place_random(&mut p, rng, strong, *pc); }
        if rng.chance(0.3) { let pc = *rng.pick(&[Pc::P, Pc::N, Pc::B]); place_random(&mut p, rng, strong.opp(), pc); }
        p.turn = *rng.pick(&[Col::W, Col::B]);
        if p.is_consistent() { return p; }
    }
}

/// Rejection-sample terminal positions (mate or stalemate) in which the side to move still owns
/// at least one piece besides the king (so its remaining pieces are pinned, blocked or useless).
pub fn terminal_with_pieces(rng: &mut Rng, tries: usize, want_stalemate: bool) -> Vec<Pos> {
    let mut out = vec![];
    for _ in 0..tries {
        let mut p = Pos::empty();
        let weak = *rng.pick(&[Col::W, Col::B]);
        // the weak king in a corner or on an edge, the strong king nearby
        let ks = *rng.pick(&[0u8, 7, 56, 63, 1, 6, 8, 15, 48, 55, 57, 62, 3, 4, 24, 31]);
        p.sq[ks as usize] = Some((weak, Pc::K));
        place_random(&mut p, rng, weak.opp(), Pc::K);
        for _ in 0..1 + rng.below(3) { let pc = *rng.pick(&[Pc::N, Pc::B, Pc::R, Pc::P, Pc::P, Pc::Q]); place_near(&mut p, rng, weak, pc, ks); }
        for _ in 0..1 + rng.below(3) { let pc = *rng.pick(&[Pc::Q, Pc::R, Pc::R, Pc::B, Pc::N, Pc::P]); place_random(&mut p, rng, weak.opp(), pc); }
        p.turn = weak;
        if !p.is_consistent() { continue; }
        if !p.legal_moves().is_empty() { continue; }
        let st = p.in_check(weak);
        if st != want_stalemate { out.push(p); }
    }
    out
}

fn place_near(p: &mut Pos, rng: &mut Rng, c: Col, pc: Pc, near: u8) -> bool {
    let (f, r) = (file_of(near), rank_of(near));
    let mut cands = vec![];
    for df in -2i8..=2 { for dr in -2i8..=2 { if let Some(s) = sq_of(f + df, r + dr) { if p.sq[s as usize].is_none() && !(pc == Pc::P && (s / 8 == 0 || s / 8 == 7)) { cands.push(s); } } } }
    if cands.is_empty() { return false; }
    let s = *rng.pick(&cands);
    p.sq[s as usize] = Some((c, pc));
    true
}

/// Sparse positions rich in en-passant chances: pawns of one side still on their starting rank, enemy pawns
/// on (or one step from) the rank from which they could capture en passant on adjacent files; kings out of the way.
/// Small trees, so exhaustive walks of 5-6 plies cover every order of double steps, advances and king tempi.
pub fn ep_rich_sparse(rng: &mut Rng) -> Pos {
    loop {
        let mut p = Pos::empty();
        let mover = *rng.pick(&[Col::W, Col::B]);
        let (start_rank, near_rank, far_rank, kr_own, kr_opp) = if mover == Col::W { (1u8, 3u8, 4u8, 0u8, 7u8) } else { (6u8, 4u8, 3u8, 7u8, 0u8) };
        let f = 1 + rng.below(6) as u8;
        p.sq[(start_rank * 8 + f) as usize] = Some((mover, Pc::P));
        // enemy pawns on adjacent files: one already on the capturing rank, one a step away
        let (a, b) = if rng.chance(0.5) { (f - 1, f + 1) } else { (f + 1, f - 1) };
        p.sq[(near_rank * 8 + a) as usize] = Some((mover.opp(), Pc::P));
        if rng.chance(0.8) { p.sq[(far_rank * 8 + b) as usize] = Some((mover.opp(), Pc::P)); }
        if rng.chance(0.4) { let f2 = (f + 3 + rng.below(2) as u8) % 8; if p.sq[(start_rank * 8 + f2) as usize].is_none() { p.sq[(start_rank * 8 + f2) as usize] = Some((mover, Pc::P)); } }
        let kf = if f < 4 { 7 } else { 0 };
        p.sq[(kr_own * 8 + (7 - kf)) as usize] = Some((mover, Pc::K));
        p.sq[(kr_opp * 8 + kf) as usize] = Some((mover.opp(), Pc::K));
        p.turn = if rng.chance(0.7) { mover } else { mover.opp() };
        if p.is_consistent() && !p.legal_moves().is_empty() { return p; }
    }
}

/// One-ply predecessors of `s` by a non-pawn move (quiet, or a capture whose victim is put back) of the side that
/// is NOT to move in `s` (retro-move): positions P with the other side to move in which a legal move leads exactly to `s`.
pub fn retro_predecessors(s: &Pos, rng: &mut Rng, max: usize) -> Vec<Pos> {
    let mover = s.turn.opp();
    let mut out = vec![];
    let mut squares: Vec<u8> = (0..64u8).filter(|t| matches!(s.sq[*t as usize], Some((c, pc)) if c == mover && pc != Pc::P)).collect();
    rng.shuffle(&mut squares);
    for t in squares {
        let (_, pc) = s.sq[t as usize].unwrap();
        let mut froms: Vec<u8> = (0..64u8).filter(|f| s.sq[*f as usize].is_none()).collect();
        rng.shuffle(&mut froms);
        for f in froms {
            let mut p = s.clone();
            p.sq[t as usize] = None; p.sq[f as usize] = Some((mover, pc));
            p.turn = mover; p.ep = None;
            // half of the retro-moves are un-captures: the piece that was taken reappears on the target square
            // (the greedy capture that walks into a stalemate or mate is the classic case)
            let uncapture = rng.chance(0.5);
            if uncapture { let cp = *rng.pick(&[Pc::P, Pc::N, Pc::B, Pc::R, Pc::Q, Pc::R, Pc::N]); if cp == Pc::P && (t / 8 == 0 || t / 8 == 7) { continue; } p.sq[t as usize] = Some((mover.opp(), cp)); }
            if !p.is_consistent() { continue; }
            let legal = p.legal_moves();
            if let Some(m) = legal.iter().find(|m| m.from == f && m.to == t && (m.kind == Kind::Quiet || m.kind == Kind::Capture)) {
                let n = p.make(m);
                if n.sq == s.sq && n.rights == s.rights && n.ep == s.ep { out.push(p); if out.len() >= max { return out; } break; }
            }
        }
    }
    out
}

/// Roots two plies before a stalemate (or mate) of a side that still has pieces: the last move is a quiet one.
/// Stalemates in which the stalemated side owns a pawn with an empty square in front of it that is pinned to its
/// king along a diagonal or a rank (so the pawn's advance is the move that is not there).
pub fn pinned_pawn_stalemates(rng: &mut Rng, tries: usize) -> Vec<Pos> {
    let mut out = vec![];
    for _ in 0..tries {
        let mut p = Pos::empty();
        let weak = *rng.pick(&[Col::W, Col::B]);
        let ks = rng.below(64) as u8;
        let (df, dr) = *rng.pick(&[(1i8, 1i8), (1, -1), (-1, 1), (-1, -1), (1, 0), (-1, 0)]);
        let k1 = 1 + rng.below(3) as i8; let k2 = k1 + 1 + rng.below(3) as i8;
        let (Some(ps), Some(ss)) = (sq_of(file_of(ks) + df * k1, rank_of(ks) + dr * k1), sq_of(file_of(ks) + df * k2, rank_of(ks) + dr * k2)) else { continue };
        if ps / 8 == 0 || ps / 8 == 7 { continue; }
        p.sq[ks as usize] = Some((weak, Pc::K));
        p.sq[ps as usize] = Some((weak, Pc::P));
        p.sq[ss as usize] = Some((weak.opp(), if dr == 0 { *rng.pick(&[Pc::R, Pc::Q]) } else { *rng.pick(&[Pc::B, Pc::Q]) }));
        place_random(&mut p, rng, weak.opp(), Pc::K);
        for _ in 0..1 + rng.below(3) { let pc = *rng.pick(&[Pc::Q, Pc::R, Pc::R, Pc::N, Pc::B]); place_near(&mut p, rng, weak.opp(), pc, ks); }
        p.turn = weak;
        let fwd: i32 = if weak == Col::W { 8 } else { -8 };
        let ahead = ps as i32 + fwd;
        if !(0..64).contains(&ahead) || p.sq[ahead as usize].is_some() { continue; }
        if !p.is_consistent() || p.in_check(weak) || !p.legal_moves().is_empty() { continue; }
        out.push(p);
    }
    out
}

/// Stalemates of the materially *stronger* side: its king boxed in by its own frozen men, the other side owning
/// little more than a king. (A side that is far behind may save itself by a quiet stalemating move.)
pub fn frozen_stronger_side_stalemates(rng: &mut Rng, tries: usize) -> Vec<Pos> {
    let val = |pc: Pc| match pc { Pc::P => 100, Pc::N => 320, Pc::B => 330, Pc::R => 500, Pc::Q => 900, Pc::K => 0 };
    let mut out = vec![];
    for _ in 0..tries {
        let mut p = Pos::empty();
        let frozen = *rng.pick(&[Col::W, Col::B]);
        let ks = *rng.pick(&[0u8, 7, 56, 63, 1, 6, 8, 15, 48, 55, 57, 62, 2, 5, 58, 61]);
        p.sq[ks as usize] = Some((frozen, Pc::K));
        for _ in 0..2 + rng.below(4) { let pc = *rng.pick(&[Pc::P, Pc::P, Pc::P, Pc::P, Pc::B, Pc::N, Pc::R]); place_near(&mut p, rng, frozen, pc, ks); }
        place_random(&mut p, rng, frozen.opp(), Pc::K);
        for _ in 0..rng.below(4) { let pc = *rng.pick(&[Pc::P, Pc::P, Pc::N, Pc::B]); place_near(&mut p, rng, frozen.opp(), pc, ks); }
        p.turn = frozen;
        let mat = |c: Col| -> i32 { p.sq.iter().filter_map(|x| *x).filter(|(cc, _)| *cc == c).map(|(_, pc)| val(pc)).sum() };
        if mat(frozen) < mat(frozen.opp()) + 150 { continue; }
        if !p.is_consistent() || p.in_check(frozen) || !p.legal_moves().is_empty() { continue; }
        out.push(p);
    }
    out
}

/// Roots exactly four plies before a terminal position whose last move is a quiet one (many per terminal position):
/// the saving / finishing quiet move then sits one ply above the horizon of a depth-4 search.
pub fn roots_four_plies_before_a_quiet_finish(terminals: &[Pos], rng: &mut Rng, max: usize) -> Vec<(Pos, u8)> {
    let mut out = vec![];
    let count = |p: &Pos| p.sq.iter().filter(|x| x.is_some()).count();
    for t in terminals {
        for f in retro_predecessors(t, rng, 6).into_iter().filter(|f| count(f) == count(t)).take(3) {
            for p in retro_predecessors(&f, rng, 4) {
                for g in retro_predecessors(&p, rng, 2) {
                    for r in retro_predecessors(&g, rng, 2) { out.push((r, 4u8)); }
                }
            }
        }
        if out.len() >= max { break; }
    }
    rng.shuffle(&mut out);
    out.truncate(max);
    out
}

pub fn roots_before_terminal(rng: &mut Rng, tries: usize, stalemate: bool, max: usize) -> Vec<(Pos, u8)> {
    roots_before(terminal_with_pieces(rng, tries, stalemate), rng, max)
}

pub fn roots_before(terminals: Vec<Pos>, rng: &mut Rng, max: usize) -> Vec<(Pos, u8)> {
    let mut out: Vec<(Pos, u8)> = vec![];
    for s in terminals {
        // up to four quiet retro-plies back: the terminal position then lies exactly on the horizon of a search
        // of that depth, at the end of a line full of narrowed windows
        let mut frontier = vec![s];
        for dist in 1..=4u8 {
            let mut next = vec![];
            for p in &frontier { for q in retro_predecessors(p, rng, if dist <= 2 { 2 } else { 1 }) { if dist >= 3 || rng.chance(0.15) { out.push((q.clone(), dist)); } next.push(q); } }
            if next.is_empty() { break; }
            frontier = next;
        }
        if out.len() >= max { break; }
    }
    out
}

/// Positions (strong side to move) in which a side owning only king + one knight/bishop has a mating move:
/// the defender's king sits in a corner hemmed in by its own pieces.
pub fn lone_minor_mates(rng: &mut Rng, tries: usize) -> Vec<Pos> {
    let mut out = vec![];
    for _ in 0..tries {
        let mut p = Pos::empty();
        let weak = *rng.pick(&[Col::W, Col::B]);
        let corner = *rng.pick(&[0u8, 7, 56, 63]);
        p.sq[corner as usize] = Some((weak, Pc::K));
        let (f, r) = (file_of(corner), rank_of(corner));
        for (df, dr) in [(1i8, 0i8), (0, 1), (1, 1), (-1, 0), (0, -1), (-1, -1), (1, -1), (-1, 1)] {
            if let Some(s) = sq_of(f + df, r + dr) { if rng.chance(0.85) { let pc = *rng.pick(&[Pc::P, Pc::P, Pc::N, Pc::B, Pc::R]); if !(pc == Pc::P && (s / 8 == 0 || s / 8 == 7)) { p.sq[s as usize] = Some((weak, pc)); } } }
        }
        let minor = *rng.pick(&[Pc::N, Pc::N, Pc::B]);
        if !place_near(&mut p, rng, weak.opp(), minor, corner) { continue; }
        place_random(&mut p, rng, weak.opp(), Pc::K);
        // the minor starts somewhere else: move it away by one of its own moves played backwards = just re-place it
        p.turn = weak.opp();
        if !p.is_consistent() { continue; }
        let legal = p.legal_moves();
        if legal.iter().any(|m| { let n = p.make(m); n.in_check(n.turn) && n.legal_moves().is_empty() }) { out.push(p); }
    }
    out
}

#[derive(Clone, Copy, Debug, PartialEq, Eq)]
pub enum Policy { Uniform, Special, CheckSeeking, Quiet, Shuffle }

pub const POLICIES: [Policy; 5] = [Policy::Uniform, Policy::Special, Policy::CheckSeeking, Policy::Quiet, Policy::Shuffle];

pub fn choose_move(p: &Pos, legal: &[Mv], rng: &mut Rng, policy: Policy, seen: &HashMap<PosKey, u32>) -> Mv {
    let mut w: Vec<u64> = Vec::with_capacity(legal.len());
    for m in legal {
        let wt = match policy {
            Policy::Uniform => 1,
            Policy::Special => match m.kind {
                Kind::EnPassant => 40, Kind::CastleK | Kind::CastleQ => 20, Kind::Promo(_) | Kind::PromoCapture(_) => 10,
                Kind::DoublePush => 3, Kind::Capture => 4, Kind::Quiet => 1,
            },
            Policy::CheckSeeking => { let n = p.make(m); if n.in_check(n.turn) { if n.legal_moves().is_empty() { 60 } else { 10 } } else { 1 } }
            Policy::Quiet => if m.captured.is_none() && m.piece != Pc::P { 30 } else { 1 },
            Policy::Shuffle => { let n = p.make(m); if seen.contains_key(&n.key()) { 40 } else if m.captured.is_none() && m.piece != Pc::P { 4 } else { 1 } }
        };
        w.push(wt);
    }
    let total: u64 = w.iter().sum();
    let mut x = (rng.next_u64() >> 11) % total;
    for (i, wt) in w.iter().enumerate() { if x < *wt { return legal[i]; } x -= wt; }
    legal[legal.len() - 1]
}

/// A seeded game from `root`: the move path (stops at a terminal position or `max_plies`).
pub fn random_game(root: &Pos, rng: &mut Rng, policy: Policy, max_plies: usize) -> Vec<Mv> {
    let mut p = root.clone();
    let mut path = vec![];
    let mut seen: HashMap<PosKey, u32> = HashMap::new();
    *seen.entry(p.key()).or_insert(0) += 1;
    for _ in 0..max_plies {
        let legal = p.legal_moves();
        if legal.is_empty() { break; }
        // occasionally switch policy for a stretch to diversify
        let pol = if rng.chance(0.1) { *rng.pick(&POLICIES) } else { policy };
        let m = choose_move(&p, &legal, rng, pol, &seen);
        path.push(m);
        p = p.make(&m);
        *seen.entry(p.key()).or_insert(0) += 1;
    }
    path
}

/// Cases for every position along a game.
pub fn game_cases(root: &Pos, path: &[Mv], origin: &'static str, stride: usize) -> Vec<Case> {
    let mut out = vec![];
    let mut p = root.clone();
    for (i, m) in path.iter().enumerate() {
        p = p.make(m);
        if (i + 1) % stride == 0 || i + 1 == path.len() { out.push(Case { root: root.clone(), path: path[..=i].to_vec(), pos: p.clone(), origin }); }
    }
    out
}

/// Feature flags of a position, used for coverage counters and the "non-trivial" rule.
#[derive(Default, Clone, Copy, Debug)]
pub struct Features { pub in_check: bool, pub double_check: bool, pub ep_available: bool, pub ep_target_set: bool, pub ep_pseudo_only: bool, pub castle_right: bool, pub castle_available: bool, pub castle_denied: bool, pub promotion: bool, pub pinned: bool, pub like_piece_ambiguity: bool, pub terminal: bool }

pub fn features(p: &Pos, legal: &[Mv]) -> Features {
    let mut f = Features::default();
    let c = p.turn;
    if let Some(k) = p.king_sq(c) {
        // count attackers by removing nothing: approximate double check by counting attacking pieces
        let mut attackers = 0;
        for s in 0..64u8 {
            if let Some((oc, _)) = p.sq[s as usize] {
                if oc != c {
                    let mut q = Pos::empty(); q.sq = [None; 64];
                    // piece s attacks k if, with only blockers kept, it does: reuse `attacked` on a board holding all pieces but testing this attacker alone
                    let mut only = p.clone();
                    for t in 0..64usize { if let Some((tc, _)) = only.sq[t] { if tc != c && t != s as usize { only.sq[t] = Some((c, Pc::P)); } } }
                    if only.attacked(k, c.opp()) { attackers += 1; }
                    let _ = q;
                }
            }
        }
        f.in_check = attackers >= 1; f.double_check = attackers >= 2;
    }
    f.ep_target_set = p.ep.is_some();
    f.ep_available = legal.iter().any(|m| m.kind == Kind::EnPassant);
    if p.ep.is_some() && !f.ep_available { f.ep_pseudo_only = p.pseudo_moves().iter().any(|m| m.kind == Kind::EnPassant); }
    let mine = if c == Col::W { WK | WQ } else { BK | BQ };
    f.castle_right = p.rights & mine != 0;
    let n_castle = legal.iter().filter(|m| matches!(m.kind, Kind::CastleK | Kind::CastleQ)).count();
    f.castle_available = n_castle > 0;
    f.castle_denied = (p.rights & mine).count_ones() as usize > n_castle;
    f.promotion = legal.iter().any(|m| matches!(m.kind, Kind::Promo(_) | Kind::PromoCapture(_)));
    f.pinned = p.pseudo_moves().len() > legal.len() && !f.in_check;
    f.like_piece_ambiguity = legal.iter().any(|m| m.piece != Pc::P && m.piece != Pc::K && legal.iter().any(|o| o.piece == m.piece && o.to == m.to && o.from != m.from));
    f.terminal = legal.is_empty();
    f
}

impl Features {
    pub fn nontrivial(&self) -> bool {
        self.in_check || self.ep_target_set || self.castle_right || self.promotion || self.pinned || self.like_piece_ambiguity || self.terminal
    }
    pub fn tally(&self, l: &mut crate::out::Local) {
        if self.in_check { l.inc("positions_in_check"); }
        if self.double_check { l.inc("positions_double_check"); }
        if self.ep_available { l.inc("positions_ep_legal"); }
        if self.ep_pseudo_only { l.inc("positions_ep_pseudo_legal_but_illegal"); }
        if self.castle_available { l.inc("positions_castle_available"); }
        if self.castle_denied { l.inc("positions_castle_right_but_denied"); }
        if self.promotion { l.inc("positions_promotion_available"); }
        if self.pinned { l.inc("positions_with_pinned_or_illegal_pseudo_moves"); }
        if self.like_piece_ambiguity { l.inc("positions_like_piece_ambiguity"); }
        if self.terminal { l.inc("positions_terminal"); }
    }
}
