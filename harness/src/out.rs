//! Run context: violation collection, known findings, evidence and replay files, verdicts.
#![allow(dead_code)]

use serde_json::{json, Map, Value};
use std::collections::{BTreeMap, HashSet};
use std::sync::atomic::{AtomicU64, Ordering};
use std::sync::Mutex;
use std::time::Instant;

pub const VERIF_DIR: &str = "/verif";

/// Where evidence and replays are written (normally /verif; VERIF_OUT_DIR redirects scratch runs).
pub fn out_dir() -> String { std::env::var("VERIF_OUT_DIR").unwrap_or_else(|_| VERIF_DIR.to_string()) }

pub struct Violation {
    pub signature: String,
    pub what: String,
    pub replay: Value,
}

pub struct Ctx {
    pub property: String,
    pub tier: String,
    pub seed: u64,
    pub start: Instant,
    pub budget_s: f64,
    violations: Mutex<Vec<Violation>>,
    violation_sigs: Mutex<HashSet<String>>,
    pub violation_events: AtomicU64,
    known_open: Vec<(String, String)>, // (signature, what)
    known_hit: Mutex<BTreeMap<String, u64>>,
    counters: Mutex<BTreeMap<String, u64>>,
    distinct: Mutex<HashSet<u64>>,
    samples: Mutex<Vec<Value>>,
    notes: Mutex<Vec<String>>,
    pub inconclusive: Mutex<Vec<String>>,
    extra: Mutex<Map<String, Value>>,
}

impl Ctx {
    pub fn new(property: &str, tier: &str, seed: u64, default_budget_s: f64) -> Ctx {
        let budget_s = std::env::var("VERIF_BUDGET_S").ok().and_then(|s| s.parse().ok()).unwrap_or(default_budget_s);
        let mut known_open = vec![];
        let path = format!("{}/known_findings.json", VERIF_DIR);
        if let Ok(text) = std::fs::read_to_string(&path) {
            match serde_json::from_str::<Value>(&text) {
                Ok(Value::Array(items)) => {
                    for it in items {
                        if it["property"] == property && it["status"] == "open" {
                            known_open.push((it["signature"].as_str().unwrap_or("").to_string(), it["what"].as_str().unwrap_or("").to_string()));
                        }
                    }
                }
                _ => { eprintln!("harness error: {} is not a JSON array", path); std::process::exit(2); }
            }
        }
        Ctx {
            property: property.to_string(), tier: tier.to_string(), seed, start: Instant::now(), budget_s,
            violations: Mutex::new(vec![]), violation_sigs: Mutex::new(HashSet::new()), violation_events: AtomicU64::new(0),
            known_open, known_hit: Mutex::new(BTreeMap::new()),
            counters: Mutex::new(BTreeMap::new()), distinct: Mutex::new(HashSet::new()), samples: Mutex::new(vec![]),
            notes: Mutex::new(vec![]), inconclusive: Mutex::new(vec![]), extra: Mutex::new(Map::new()),
        }
    }

    pub fn quick(&self) -> bool { self.tier == "quick" }
    pub fn elapsed(&self) -> f64 { self.start.elapsed().as_secs_f64() }
    /// Fraction of the time budget used so far.
    pub fn budget_used(&self) -> f64 { self.elapsed() / self.budget_s }
    pub fn out_of_budget(&self) -> bool { self.elapsed() > self.budget_s }

    /// Report a refuting observation. `signature` identifies the failing case class (it is what
    /// known findings are matched on, by equality); `replay` is the full witness.
    pub fn violation(&self, signature: &str, what: &str, replay: Value) {
        if let Some((_, _)) = self.known_open.iter().find(|(s, _)| s == signature) {
            *self.known_hit.lock().unwrap().entry(signature.to_string()).or_insert(0) += 1;
            return;
        }
        self.violation_events.fetch_add(1, Ordering::Relaxed);
        let mut sigs = self.violation_sigs.lock().unwrap();
        if sigs.len() >= 40 || !sigs.insert(signature.to_string()) { return; }
        drop(sigs);
        self.violations.lock().unwrap().push(Violation { signature: signature.to_string(), what: what.to_string(), replay });
    }

    pub fn violation_count(&self) -> u64 { self.violation_events.load(Ordering::Relaxed) }

    pub fn count(&self, name: &str, n: u64) {
        *self.counters.lock().unwrap().entry(name.to_string()).or_insert(0) += n;
    }
    pub fn merge_counts(&self, local: &BTreeMap<&'static str, u64>) {
        let mut c = self.counters.lock().unwrap();
        for (k, v) in local { *c.entry(k.to_string()).or_insert(0) += *v; }
    }
    pub fn counter(&self, name: &str) -> u64 { *self.counters.lock().unwrap().get(name).unwrap_or(&0) }
    pub fn set_counter_max(&self, name: &str, v: u64) {
        let mut c = self.counters.lock().unwrap();
        let e = c.entry(name.to_string()).or_insert(0);
        if v > *e { *e = v; }
    }

    /// Record a distinct non-trivial case (by 64-bit key).
    pub fn distinct(&self, key: u64) { self.distinct.lock().unwrap().insert(key); }
    pub fn distinct_many(&self, keys: &[u64]) { let mut d = self.distinct.lock().unwrap(); for k in keys { d.insert(*k); } }
    pub fn distinct_count(&self) -> u64 { self.distinct.lock().unwrap().len() as u64 }

    pub fn sample(&self, v: Value) {
        let mut s = self.samples.lock().unwrap();
        if s.len() < 12 { s.push(v); }
    }
    pub fn sample_count(&self) -> usize { self.samples.lock().unwrap().len() }
    pub fn note(&self, s: &str) { self.notes.lock().unwrap().push(s.to_string()); }
    pub fn set_extra(&self, k: &str, v: Value) { self.extra.lock().unwrap().insert(k.to_string(), v); }
    pub fn inconclusive(&self, why: &str) {
        println!("INCONCLUSIVE property={} {}", self.property, why);
        self.inconclusive.lock().unwrap().push(why.to_string());
    }

    /// Write evidence + replays, print verdict lines, return the process exit code.
    /// `evaluations`: oracle comparisons made; `rule`: how cases are generated and what counts
    /// as distinct/non-trivial; `gates`: (counter name, minimum) pairs that must be met for "held".
    pub fn finish(&self, evaluations: u64, rule: &str, assumptions: &[&str], gates: &[(&str, u64)]) -> i32 {
        let viols = self.violations.lock().unwrap();
        let known = self.known_hit.lock().unwrap();
        std::fs::create_dir_all(format!("{}/replays", out_dir())).ok();
        std::fs::create_dir_all(format!("{}/evidence", out_dir())).ok();
        for (sig, n) in known.iter() {
            let what = self.known_open.iter().find(|(s, _)| s == sig).map(|x| x.1.clone()).unwrap_or_default();
            println!("KNOWN-FINDING: property={} {} [{}; seen {}x in this run]", self.property, what, sig, n);
        }
        let mut replay_paths = vec![];
        for (i, v) in viols.iter().enumerate() {
            let path = format!("{}/replays/{}-{}-{}-{}.json", out_dir(), self.property, self.tier, self.seed, i);
            let mut doc = json!({ "property": self.property, "tier": self.tier, "seed": self.seed, "signature": v.signature, "what": v.what });
            if let (Value::Object(d), Value::Object(r)) = (&mut doc, &v.replay) { for (k, val) in r { d.insert(k.clone(), val.clone()); } }
            std::fs::write(&path, serde_json::to_string_pretty(&doc).unwrap()).ok();
            println!("VIOLATION property={} replay={}", self.property, path);
            println!("  what: {}", v.what);
            replay_paths.push(path);
        }
        let counters = self.counters.lock().unwrap().clone();
        let mut gate_fail = vec![];
        for (name, min) in gates {
            let got = *counters.get(*name).unwrap_or(&0);
            if got < *min { gate_fail.push(format!("{} = {} < {}", name, got, min)); }
        }
        let inconclusive = self.inconclusive.lock().unwrap().clone();
        let distinct = self.distinct_count();
        let verdict = if !viols.is_empty() { "violated" } else if !gate_fail.is_empty() { "inconclusive" } else { "held" };
        let mut coverage = Map::new();
        coverage.insert("evaluations".into(), json!(evaluations));
        coverage.insert("distinct_nontrivial".into(), json!(distinct));
        coverage.insert("rule".into(), json!(rule));
        coverage.insert("samples".into(), Value::Array(self.samples.lock().unwrap().clone()));
        coverage.insert("exhaustive".into(), json!(false));
        coverage.insert("observed".into(), json!(counters));
        coverage.insert("verdict".into(), json!(verdict));
        coverage.insert("gates".into(), json!(gates.iter().map(|(n, m)| json!({"counter": n, "min": m, "got": counters.get(*n).unwrap_or(&0)})).collect::<Vec<_>>()));
        coverage.insert("known_findings_seen".into(), json!(known.clone()));
        coverage.insert("violation_events".into(), json!(self.violation_count()));
        coverage.insert("replays".into(), json!(replay_paths));
        if !inconclusive.is_empty() { coverage.insert("inconclusive".into(), json!(inconclusive)); }
        let notes = self.notes.lock().unwrap().clone();
        if !notes.is_empty() { coverage.insert("notes".into(), json!(notes)); }
        for (k, v) in self.extra.lock().unwrap().iter() { coverage.insert(k.clone(), v.clone()); }
        let ev = json!({
            "property_id": self.property, "tier": self.tier, "seed": self.seed, "level": "exploration",
            "coverage": Value::Object(coverage), "assumptions": assumptions, "wall_s": self.elapsed(),
            "violations": viols.len(),
        });
        let epath = format!("{}/evidence/{}.json", out_dir(), self.property);
        if let Err(e) = std::fs::write(&epath, serde_json::to_string_pretty(&ev).unwrap()) {
            eprintln!("harness error: cannot write {}: {}", epath, e);
            return 2;
        }
        println!("{} {} tier={} seed={} evaluations={} distinct_nontrivial={} violations={} known={} wall={:.1}s",
            self.property, verdict.to_uppercase(), self.tier, self.seed, evaluations, distinct, viols.len(), known.len(), self.elapsed());
        let mut shown = 0;
        for (k, v) in counters.iter() { if shown < 60 { println!("  observed {} = {}", k, v); shown += 1; } }
        if !viols.is_empty() { return 1; }
        if !gate_fail.is_empty() {
            println!("INCONCLUSIVE property={} minimum coverage not reached: {}", self.property, gate_fail.join("; "));
            return 2;
        }
        if evaluations == 0 || distinct < 2 {
            println!("INCONCLUSIVE property={} nothing non-trivial was observed", self.property);
            return 2;
        }
        0
    }
}

/// Thread-local style counter block that is merged into the context at the end of a work item.
#[derive(Default)]
pub struct Local {
    pub c: BTreeMap<&'static str, u64>,
    pub d: BTreeMap<String, u64>,
    pub m: BTreeMap<&'static str, u64>,
    pub distinct: Vec<u64>,
}
impl Local {
    pub fn inc(&mut self, k: &'static str) { *self.c.entry(k).or_insert(0) += 1; }
    pub fn add(&mut self, k: &'static str, n: u64) { *self.c.entry(k).or_insert(0) += n; }
    pub fn set_max(&mut self, k: &'static str, v: u64) { let e = self.m.entry(k).or_insert(0); if v > *e { *e = v; } }
    pub fn set_max_abs(&mut self, v: u64) { let e = self.c.entry("max_abs_static_score").or_insert(0); if v > *e { *e = v; } }
    pub fn inc_dyn(&mut self, k: &str) { if let Some(v) = self.d.get_mut(k) { *v += 1; } else { self.d.insert(k.to_string(), 1); } }
    pub fn flush(&mut self, ctx: &Ctx) {
        if let Some(v) = self.c.remove("max_abs_static_score") { ctx.set_counter_max("max_abs_static_score", v); }
        ctx.merge_counts(&self.c);
        for (k, v) in &self.d { ctx.count(k, *v); }
        for (k, v) in &self.m { ctx.set_counter_max(k, *v); }
        self.m.clear();
        self.d.clear();
        ctx.distinct_many(&self.distinct);
        self.c.clear();
        self.distinct.clear();
    }
}

/// Merge the per-draw evidence files of a multi-draw check into one evidence file.
pub fn merge_parts(id: &str, dir: &str, tier: &str, seed: u64) -> i32 {
    let mut parts: Vec<Value> = vec![];
    let mut names: Vec<_> = std::fs::read_dir(dir).map(|d| d.filter_map(|e| e.ok()).map(|e| e.path()).collect::<Vec<_>>()).unwrap_or_default();
    names.sort();
    for p in names { if let Some(v) = std::fs::read_to_string(&p).ok().and_then(|t| serde_json::from_str::<Value>(&t).ok()) { parts.push(v); } }
    if parts.is_empty() { eprintln!("harness error: no per-draw evidence to merge in {}", dir); return 2; }
    let mut evaluations = 0u64; let mut distinct = 0u64; let mut violations = 0i64; let mut wall = 0.0f64;
    let mut observed: BTreeMap<String, u64> = BTreeMap::new();
    let mut samples: Vec<Value> = vec![]; let mut draws: Vec<Value> = vec![]; let mut replays: Vec<Value> = vec![];
    let mut fingerprints = HashSet::new();
    let mut verdicts = vec![]; let mut exhaustive_all = true;
    let mut rule = String::new(); let mut assumptions = Value::Null;
    let mut sanitizer: Map<String, Value> = Map::new();
    for p in &parts {
        let c = &p["coverage"];
        evaluations += c["evaluations"].as_u64().unwrap_or(0);
        distinct += c["distinct_nontrivial"].as_u64().unwrap_or(0);
        violations += p["violations"].as_i64().unwrap_or(0);
        wall += p["wall_s"].as_f64().unwrap_or(0.0);
        if let Some(o) = c["observed"].as_object() { for (k, v) in o { let e = observed.entry(k.clone()).or_insert(0); if k.starts_with("highest") || k.starts_with("deepest") || k.starts_with("max_") || k.starts_with("asan_") || k.starts_with("tsan_") { *e = (*e).max(v.as_u64().unwrap_or(0)); } else { *e += v.as_u64().unwrap_or(0); } } }
        if let Some(s) = c["samples"].as_array() { for x in s.iter().take(3) { samples.push(x.clone()); } }
        if let Some(r) = c["replays"].as_array() { replays.extend(r.iter().cloned()); }
        let fp = c["draw_fingerprint"].as_str().unwrap_or("?").to_string();
        fingerprints.insert(fp.clone());
        if c["exhaustive_for_this_draw"].as_bool() == Some(false) { exhaustive_all = false; }
        draws.push(json!({"draw_fingerprint": fp, "seed": p["seed"], "verdict": c["verdict"], "evaluations": c["evaluations"], "violations": p["violations"]}));
        verdicts.push(c["verdict"].as_str().unwrap_or("?").to_string());
        rule = c["rule"].as_str().unwrap_or("").to_string();
        assumptions = p["assumptions"].clone();
        for k in ["address_sanitizer", "thread_sanitizer"] { if !c[k].is_null() { sanitizer.insert(k.to_string(), c[k].clone()); } }
    }
    let verdict = if verdicts.iter().any(|v| v == "violated") { "violated" } else if verdicts.iter().any(|v| v != "held") { "inconclusive" } else { "held" };
    let distinct_draws = fingerprints.len();
    let ev = json!({
        "property_id": id, "tier": tier, "seed": seed, "level": "exploration",
        "coverage": {
            "evaluations": evaluations, "distinct_nontrivial": distinct,
            "rule": format!("{} draws of the build-time tables were forced (cargo clean -p chess + rebuild); per draw: {}; counts are summed over the draws (a case is a (draw, case) pair)", parts.len(), rule),
            "samples": samples, "observed": observed, "verdict": verdict, "draws": draws, "draws_examined": parts.len(), "distinct_draws": distinct_draws,
            "exhaustive": false, "exhaustive_per_draw": exhaustive_all, "replays": replays,
        },
        "assumptions": assumptions, "wall_s": wall, "violations": violations,
    });
    let mut ev = ev;
    for (k, v) in sanitizer { ev["coverage"][k] = v; }
    let epath = format!("{}/evidence/{}.json", out_dir(), id);
    if std::fs::write(&epath, serde_json::to_string_pretty(&ev).unwrap()).is_err() { eprintln!("harness error: cannot write {}", epath); return 2; }
    println!("{} {} tier={} seed={} draws={} distinct_draws={} evaluations={} violations={}", id, verdict.to_uppercase(), tier, seed, parts.len(), distinct_draws, evaluations, violations);
    if parts.len() > 1 && distinct_draws < parts.len() {
        println!("INCONCLUSIVE property={} forced re-draws produced only {} distinct table sets out of {}", id, distinct_draws, parts.len());
        return 2;
    }
    if verdict == "violated" { 1 } else if verdict == "held" { 0 } else { 2 }
}
